#!/usr/bin/env python3
"""Render seeded/MATRIX.json into DESIGN.md between the MATRIX markers."""
import json, os, re
V = os.path.dirname(os.path.dirname(os.path.abspath(__file__)))
M = json.load(open(os.path.join(V, "seeded", "MATRIX.json")))
rows = []
caught = missed = 0
for mid in sorted(M):
    e = M[mid]
    own = e.get("breaks", "?")
    checks = e.get("checks", {})
    cells = []
    own_hit = None
    for key in sorted(checks):
        c = checks[key]
        p, tier = key.split(":")
        verdict = {0: "silent", 1: "VIOLATION", 2: "inconclusive"}.get(c["exit"], f"exit {c['exit']}")
        cells.append(f"{p} {tier}: {verdict} ({c['wall_s']:.0f}s)")
        if p == own:
            own_hit = (c["exit"] == 1) or bool(own_hit)
    det = ""
    for key in sorted(checks):
        if checks[key]["exit"] == 1 and checks[key].get("detail"):
            det = checks[key]["detail"].replace("detail: ", "").replace("|", "\\|")[:160]
            break
    if own_hit:
        caught += 1
    elif own_hit is not None:
        missed += 1
    summ = (e.get("summary") or "").replace("|", "\\|")[:150]
    rows.append(f"| {mid} | {own} | {summ} | {'; '.join(cells)} | {det} |")
hdr = f"{caught} of {caught + missed} seeded changes are reported by the check of the property they were written against (quick tier unless noted).\n\n| change | breaks | what it does | checks run → verdict | first report |\n|---|---|---|---|---|\n"
block = hdr + "\n".join(rows) + "\n"
p = os.path.join(V, "DESIGN.md")
s = open(p).read()
s = re.sub(r"<!-- MATRIX-BEGIN -->.*<!-- MATRIX-END -->", lambda m: "<!-- MATRIX-BEGIN -->\n" + block + "<!-- MATRIX-END -->", s, flags=re.S)
open(p, "w").write(s)
print(f"rendered {len(rows)} rows; caught {caught}, missed {missed}")
