#!/bin/bash
# usage: with_patch.sh <patch.diff> <command...>   — applies the patch to /repo, runs the command, always reverts
set -u
P="$1"; shift
if ! git -C /repo diff --quiet; then echo "/repo is dirty" >&2; exit 3; fi
git -C /repo apply "$P" || { echo "patch does not apply" >&2; exit 3; }
"$@"; rc=$?
git -C /repo checkout -- . 
exit $rc
