#!/usr/bin/env python3
"""install_mutants.py <verify.log> <name-prefix e.g. r2>: copy verified seeded changes into seeded/."""
import json, os, re, shutil, sys
log, pre = sys.argv[1], sys.argv[2]
V = os.path.dirname(os.path.dirname(os.path.abspath(__file__)))
n = 0
for l in open(log):
    m = re.match(r'RESULT (\S+) suite=\[(.*?)\] feature_tests=\[(.*?)\] demo_with_patch_rc=(\S+) demo_with_patch_release_rc=(\S+) demo_clean_rc=(\S+) demo_clean_release_rc=(\S+)', l)
    if not m:
        continue
    d, suite, feat, rm, rmr, rc, rcr = m.groups()
    prop, mi = d.split('/')[-2:]
    ok = '86 passed' in suite and ((rm != rmr and rc == '0' and rcr == '0') if prop == 'C17' else (rm != '0' and rc == '0'))
    if not ok:
        print("NOT VERIFIED", l.strip()[:200])
        continue
    out = f'{V}/seeded/{prop}-{pre}{mi}'
    os.makedirs(out, exist_ok=True)
    shutil.copy(d + '/patch.diff', out); shutil.copy(d + '/demo.rs', out)
    meta = json.load(open(d + '/meta.json'))
    meta['property'] = prop
    meta['origin'] = 'written by an independent sub-agent given only the property text, a list of sites to avoid (for diversity) and a scratch worktree'
    meta['verified_by_me'] = {'worktree': 'scratch git worktree of /repo HEAD (removed afterwards)', 'suite_with_patch': suite.strip(), 'feature_tests_with_patch': feat.strip(), 'demo_with_patch_exit': rm, 'demo_with_patch_release_exit': rmr, 'demo_on_clean_tree_exit': rc, 'demo_on_clean_tree_release_exit': rcr,
                              'commands': ['git apply patch.diff', 'cargo nextest run --workspace --no-fail-fast --offline', 'cp demo.rs tests/demo.rs && cargo test --offline --test demo', 'git checkout -- . && cargo test --offline --test demo']}
    json.dump(meta, open(out + '/meta.json', 'w'), indent=1)
    n += 1
print("installed", n)
