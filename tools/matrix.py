#!/usr/bin/env python3
"""Run registered checks against the seeded changes, in a sandbox copy (never in /repo).

  tools/matrix.py [--only C03-m1,C04-m2] [--props own|all|C01,C05] [--tier quick] [--fresh] [--dir seeded|benign]

Creates /tmp/mx/repo (git worktree of /repo HEAD) and /tmp/mx/verif (copy of /verif whose harness
points at /tmp/mx/repo), applies each seeded/<id>/patch.diff there, runs run_check.py for the
property the change breaks (or the listed ones), records exit code and first VIOLATION line in
seeded/MATRIX.json, reverts.  Remove the sandbox afterwards with --cleanup.
"""
import argparse, json, os, subprocess, sys, time, shutil, re

VERIF = os.path.dirname(os.path.dirname(os.path.abspath(__file__)))
MX = os.environ.get("MX_DIR", "/tmp/mx")

def sh(cmd, **kw):
    return subprocess.run(cmd, shell=True, text=True, stdout=subprocess.PIPE, stderr=subprocess.STDOUT, **kw)

def setup(fresh):
    if fresh and os.path.exists(MX):
        sh(f"git -C /repo worktree remove --force {MX}/repo")
        shutil.rmtree(MX, ignore_errors=True)
    os.makedirs(MX, exist_ok=True)
    if not os.path.exists(f"{MX}/repo"):
        r = sh(f"git -C /repo worktree add --detach {MX}/repo HEAD")
        assert r.returncode == 0, r.stdout
    else:
        sh(f"git -C {MX}/repo checkout -q --detach $(git -C /repo rev-parse HEAD) && git -C {MX}/repo checkout -q -- .")
    # copy /verif without build output / evidence / logs
    sh(f"rsync -a --delete --exclude 'target*' --exclude logs --exclude replays --exclude evidence --exclude .git {VERIF}/ {MX}/verif/")
    ct = open(f"{MX}/verif/harness/Cargo.toml").read().replace('path = "/repo"', f'path = "{MX}/repo"')
    open(f"{MX}/verif/harness/Cargo.toml", "w").write(ct)
    shutil.copy("/repo/Cargo.lock", f"{MX}/verif/harness/Cargo.lock") if not os.path.exists(f"{MX}/verif/harness/Cargo.lock") else None

def main():
    ap = argparse.ArgumentParser()
    ap.add_argument("--only")
    ap.add_argument("--props", default="own")
    ap.add_argument("--tier", default="quick")
    ap.add_argument("--fresh", action="store_true")
    ap.add_argument("--cleanup", action="store_true")
    ap.add_argument("--dir", default="seeded", help="seeded (property-breaking) or benign (property-preserving) changes")
    ap.add_argument("--out")
    a = ap.parse_args()
    a.out = a.out or os.path.join(VERIF, a.dir, "MATRIX.json")
    if a.cleanup:
        sh(f"git -C /repo worktree remove --force {MX}/repo")
        shutil.rmtree(MX, ignore_errors=True)
        return
    setup(a.fresh)
    ids = sorted(d for d in os.listdir(os.path.join(VERIF, a.dir)) if os.path.isdir(os.path.join(VERIF, a.dir, d)))
    if a.only:
        ids = [i for i in ids if i in a.only.split(",")]
    try:
        M = json.load(open(a.out))
    except Exception:
        M = {}
    for mid in ids:
        d = os.path.join(VERIF, a.dir, mid)
        meta = json.load(open(os.path.join(d, "meta.json")))
        own = meta.get("property") or mid.split("-")[0]
        own = re.findall(r"C\d\d", own)[0] if re.findall(r"C\d\d", own) else mid.split("-")[0]
        if a.props == "all" or (a.props == "own" and a.dir == "benign"):
            props = ["C%02d" % i for i in range(1, 18)]
        else:
            props = [own] if a.props == "own" else a.props.split(",")
        r = sh(f"git -C {MX}/repo checkout -q -- . && git -C {MX}/repo apply {d}/patch.diff")
        if r.returncode != 0:
            print(mid, "PATCH DOES NOT APPLY", r.stdout[:300])
            M.setdefault(mid, {})["apply"] = "failed"
            continue
        for p in props:
            t0 = time.time()
            env = dict(os.environ)
            env["VERIF_SEED"] = env.get("VERIF_SEED", "1")
            r = subprocess.run([sys.executable, "run_check.py", "--property", p, "--tier", a.tier], cwd=f"{MX}/verif", env=env, text=True, stdout=subprocess.PIPE, stderr=subprocess.STDOUT)
            lines = r.stdout.splitlines()
            v = next((l for l in lines if l.startswith("VIOLATION")), "")
            det = ""
            for i, l in enumerate(lines):
                if l.startswith("VIOLATION") and i + 1 < len(lines):
                    det = lines[i + 1].strip()
                    break
            inc = next((l for l in lines if l.startswith("INCONCLUSIVE")), "")
            also = sorted({m for l in lines if l.startswith("ALSO-OBSERVED") for m in re.findall(r"property=([C\d/]+)", l)})
            M.setdefault(mid, {"breaks": own, "summary": meta.get("summary", "")})
            M[mid].setdefault("checks", {})[f"{p}:{a.tier}"] = {"exit": r.returncode, "violation": v[:200], "detail": det[:400], "inconclusive": inc[:300], "also_observed": also, "wall_s": round(time.time() - t0, 1)}
            print(f"{mid:8s} {p} exit={r.returncode} {time.time()-t0:6.1f}s  {det[:150] or inc[:150]}", flush=True)
            json.dump(M, open(a.out, "w"), indent=1, sort_keys=True)
        sh(f"git -C {MX}/repo checkout -q -- .")
    json.dump(M, open(a.out, "w"), indent=1, sort_keys=True)

if __name__ == "__main__":
    main()
