#!/bin/bash
# usage: verify_mutant.sh <dir with patch.diff demo.rs meta.json> <scratch worktree> [plain|feat|profile]
# Confirms: patch applies; existing suite passes with it; demo fails with it; demo passes without it.
#  feat    : demo (and the crate's feature-gated tests) run with --features "rayon serde"
#  profile : the demo must give different outcomes in debug and release with the patch, the same without
set -u
D="$1"; WT="$2"; MODE="${3:-plain}"
export CARGO_NET_OFFLINE=true
cd "$WT" || exit 3
git checkout -q -- . ; rm -f tests/demo.rs
git apply "$D/patch.diff" || { echo "RESULT $D apply=FAIL"; exit 1; }
suite=$(cargo nextest run --workspace --no-fail-fast --offline 2>&1 | grep -E "^\s+Summary" | tail -1)
FEAT=""
extra=""
if [ "$MODE" = feat ]; then
  FEAT='--features rayon,serde'
  extra=$(cargo test --offline $FEAT --test rayon --test serde 2>&1 | grep -E "^test result" | tr '\n' ' ')
fi
cp "$D/demo.rs" tests/demo.rs
timeout 900 cargo test --offline $FEAT --test demo >/tmp/mv_demo_mut.log 2>&1; rc_mut=$?
rc_mut_rel=-
if [ "$MODE" = profile ]; then timeout 900 cargo test --offline --release --test demo >/tmp/mv_demo_mut_rel.log 2>&1; rc_mut_rel=$?; fi
git checkout -q -- .
timeout 900 cargo test --offline $FEAT --test demo >/tmp/mv_demo_clean.log 2>&1; rc_clean=$?
rc_clean_rel=-
if [ "$MODE" = profile ]; then timeout 900 cargo test --offline --release --test demo >/tmp/mv_demo_clean_rel.log 2>&1; rc_clean_rel=$?; fi
rm -f tests/demo.rs
echo "RESULT $D suite=[$suite] feature_tests=[$extra] demo_with_patch_rc=$rc_mut demo_with_patch_release_rc=$rc_mut_rel demo_clean_rc=$rc_clean demo_clean_release_rc=$rc_clean_rel"
