#!/bin/bash
# usage: verify_mutant.sh <dir with patch.diff demo.rs meta.json> <scratch worktree>
# Confirms: patch applies; existing suite passes with it; demo fails with it; demo passes without it.
set -u
D="$1"; WT="$2"
export CARGO_NET_OFFLINE=true
cd "$WT" || exit 3
git checkout -q -- . ; rm -f tests/demo.rs
git apply "$D/patch.diff" || { echo "RESULT $D apply=FAIL"; exit 1; }
suite=$(cargo nextest run --workspace --no-fail-fast --offline 2>&1 | grep -E "^\s+Summary" | tail -1)
cp "$D/demo.rs" tests/demo.rs
timeout 600 cargo test --offline --test demo >/tmp/mv_demo_mut.log 2>&1; rc_mut=$?
git checkout -q -- . 
timeout 600 cargo test --offline --test demo >/tmp/mv_demo_clean.log 2>&1; rc_clean=$?
rm -f tests/demo.rs
echo "RESULT $D suite=[$suite] demo_with_patch_rc=$rc_mut demo_clean_rc=$rc_clean"
