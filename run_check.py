#!/usr/bin/env python3
"""Driver for the griddle runtime-monitoring checks.

  python3 run_check.py --property C03 --tier quick
  python3 run_check.py --replay replays/C03/....replay
  python3 run_check.py --setup            (pre-build every flavour)

Builds the harness (which depends on /repo by path, so cargo rebuilds exactly when the working
tree changed), runs the shards planned for the property in parallel, merges their reports,
writes evidence/<id>.json and decides:

  exit 0  held on everything observed and the minimum-observation rule was met
  exit 1  VIOLATION property=<id> replay=<path>   (an oracle attributed to <id> fired)
  exit 2  INCONCLUSIVE property=<id> reason=...   (build failure, watchdog, too little observed)
"""
import argparse, json, os, re, subprocess, sys, time, shutil, signal
from concurrent.futures import ThreadPoolExecutor

ROOT = os.path.dirname(os.path.abspath(__file__))
H = os.path.join(ROOT, "harness")
EVID = os.path.join(ROOT, "evidence")
REPLAYS = os.path.join(ROOT, "replays")
LOGS = os.path.join(ROOT, "logs")
NCPU = os.cpu_count() or 4

ENV = dict(os.environ)
ENV["CARGO_NET_OFFLINE"] = "true"
ENV.setdefault("CARGO_TERM_COLOR", "never")

LEVEL = {p: "exploration" for p in ["C%02d" % i for i in range(1, 18)]}
LEVEL["C07"] = "fault_enumeration"

# ------------------------------------------------------------------------------------------
# flavours
# ------------------------------------------------------------------------------------------

def flavour_build(fl):
    """(cmd, env, binary path or None)"""
    t = "x86_64-unknown-linux-gnu"
    if fl == "release":
        return (["cargo", "build", "--offline", "--release", "--target-dir", "target-rel"], {}, "target-rel/release/gv")
    if fl == "debug":
        return (["cargo", "build", "--offline", "--profile", "dbgopt", "--target-dir", "target-dbg"], {}, "target-dbg/dbgopt/gv")
    if fl == "dev":
        return (["cargo", "build", "--offline", "--target-dir", "target-dev"], {}, "target-dev/debug/gv")
    if fl == "ext":
        return (["cargo", "build", "--offline", "--release", "--features", "ext", "--target-dir", "target-ext"], {}, "target-ext/release/gv")
    if fl == "extdebug":
        return (["cargo", "build", "--offline", "--profile", "dbgopt", "--features", "ext", "--target-dir", "target-extdbg"], {}, "target-extdbg/dbgopt/gv")
    if fl == "asan":
        return (["cargo", "+nightly", "build", "--offline", "--release", "--target", t, "--target-dir", "target-asan"],
                {"RUSTFLAGS": "-Zsanitizer=address -Cforce-frame-pointers=yes"}, f"target-asan/{t}/release/gv")
    if fl == "asanext":
        return (["cargo", "+nightly", "build", "--offline", "--release", "--features", "ext", "--target", t, "--target-dir", "target-asanext"],
                {"RUSTFLAGS": "-Zsanitizer=address -Cforce-frame-pointers=yes"}, f"target-asanext/{t}/release/gv")
    if fl == "msan":
        return (["cargo", "+nightly", "build", "--offline", "--release", "-Zbuild-std", "--target", t, "--target-dir", "target-msan"],
                {"RUSTFLAGS": "-Zsanitizer=memory -Zsanitizer-memory-track-origins"}, f"target-msan/{t}/release/gv")
    if fl == "tsan":
        return (["cargo", "+nightly", "build", "--offline", "--release", "--features", "ext", "-Zbuild-std", "--target", t, "--target-dir", "target-tsan"],
                {"RUSTFLAGS": "-Zsanitizer=thread"}, f"target-tsan/{t}/release/gv")
    if fl == "valgrind":
        return flavour_build("release")
    if fl in ("miri", "miriext"):
        return (None, {}, None)
    raise ValueError(fl)

def build(fl, log):
    cmd, env, binary = flavour_build(fl)
    if cmd is None:
        return None
    e = dict(ENV); e.update(env)
    t0 = time.time()
    p = subprocess.run(cmd, cwd=H, env=e, stdout=subprocess.PIPE, stderr=subprocess.STDOUT, text=True)
    log.write(f"## build {fl}: {' '.join(cmd)} -> {p.returncode} in {time.time()-t0:.1f}s\n")
    if p.returncode != 0:
        log.write(p.stdout[-6000:] + "\n")
        raise BuildError(fl, p.stdout[-3000:])
    return os.path.join(H, binary)

class BuildError(Exception):
    def __init__(self, fl, out):
        super().__init__(f"build of flavour {fl} failed")
        self.fl = fl; self.out = out

def run_env(fl):
    e = dict(ENV)
    if fl in ("asan", "asanext"):
        e["ASAN_OPTIONS"] = "detect_leaks=1:abort_on_error=0:halt_on_error=1:exitcode=66:allocator_may_return_null=1:detect_stack_use_after_return=0"
        e["LSAN_OPTIONS"] = "exitcode=67"
    if fl == "msan":
        e["MSAN_OPTIONS"] = "exitcode=66:halt_on_error=1"
    if fl == "tsan":
        # crossbeam-deque (rayon's work-stealing queue) reads and writes its buffer slots with
        # volatile accesses ordered by fences, which ThreadSanitizer does not model: those
        # reports are about the dependency, never about griddle (see tsan.supp)
        e["TSAN_OPTIONS"] = "exitcode=66:halt_on_error=1:suppressions=" + os.path.join(ROOT, "tsan.supp")
    return e

def shard_cmd(fl, binary, args):
    if fl == "valgrind":
        return ["valgrind", "-q", "--error-exitcode=66", "--errors-for-leak-kinds=definite", "--leak-check=no", binary] + args
    if fl in ("miri", "miriext"):
        cmd = ["cargo", "+nightly", "miri", "run", "-q", "--offline", "--target-dir", "target-miri" if fl == "miri" else "target-miriext"]
        if fl == "miriext":
            cmd += ["--features", "ext"]
        return cmd + ["--"] + args
    return [binary] + args

def miri_env(fl, leaks_ok):
    e = dict(ENV)
    flags = "-Zmiri-disable-isolation"
    if fl == "miriext":
        flags += " -Zmiri-tree-borrows -Zmiri-permissive-provenance -Zmiri-ignore-leaks"
    elif leaks_ok:
        flags += " -Zmiri-ignore-leaks"
    e["MIRIFLAGS"] = flags
    return e

# ------------------------------------------------------------------------------------------
# plans: property -> tier -> list of shards {fl, args, timeout, leaks_ok}
# ------------------------------------------------------------------------------------------

def S(fl, workload, n=None, shards=1, timeout=600, leaks_ok=False, **kw):
    out = []
    for i in range(shards):
        args = [workload]
        if n is not None:
            args += ["--n", str(n)]
        for k, v in kw.items():
            args += ["--" + k.replace("_", "-"), str(v)]
        args += ["--shard", f"{i}/{shards}"]
        out.append({"fl": fl, "args": args, "timeout": timeout, "leaks_ok": leaks_ok})
    return out

def plan(prop, tier):
    q = tier == "quick"
    P = []
    if prop == "C01":
        P += S("release", "sentinels") + S("debug", "sentinels")
        P += S("release", "hist", n=4000 if q else 40000, shards=10 if q else 14, profile="general")
        P += S("debug", "hist", n=1500 if q else 12000, shards=4, profile="general")
        P += S("release", "hist", n=2000 if q else 15000, shards=2, profile="entry")
        P += S("release", "zst", depth=4 if q else 5, shards=1 if q else 4) + S("debug", "zst", depth=3 if q else 4)
        P += S("release", "plain", n=300 if q else 3000, shards=2) + S("debug", "plain", n=100 if q else 600)
        P += S("debug", "limits", n=60 if q else 300) + S("release", "limits", n=60 if q else 300)
        P += S("release", "ladder", n=6, shards=2 if q else 4, keys=3000 if q else 20000, timeout=2400)
        P += S("release", "sweep", shards=2 if q else 6, maxlen=140 if q else 1000, dense=130 if q else 300, timeout=1800)
    elif prop == "C02":
        P += S("release", "ladder", n=6, shards=8 if q else 14, keys=20000 if q else 200000, timeout=2400)
        P += S("release", "hist", n=8000 if q else 40000, shards=4, profile="work")
        P += S("release", "hist", n=4000 if q else 20000, shards=2, profile="general")
        P += S("debug", "hist", n=1500 if q else 8000, shards=2, profile="work")
        P += S("release", "sweep", shards=2 if q else 6, maxlen=140 if q else 1000, dense=130 if q else 300, timeout=1800)
        P += S("release", "sets", n=3000 if q else 20000, shards=2)
    elif prop == "C03":
        P += S("release", "ladder", n=6, shards=8 if q else 14, keys=20000 if q else 200000, timeout=2400)
        P += S("release", "hist", n=4000 if q else 30000, shards=6, profile="general")
        P += S("release", "hist", n=3000 if q else 20000, shards=2, profile="partition")
        P += S("release", "chains", shards=2, stride=40 if q else 6)
        P += S("release", "sets", n=3000 if q else 20000, shards=2)
    elif prop == "C04":
        P += S("release", "sentinels")
        P += S("release", "sweep", shards=8 if q else 14, maxlen=900 if q else 4000, dense=260 if q else 1100, timeout=3000)
        P += S("debug", "sweep", shards=2, maxlen=120 if q else 300, dense=60 if q else 130, timeout=1800)
        P += S("release", "hist", n=6000 if q else 40000, shards=4, profile="headroom")
        P += S("release", "prefix", n=150 if q else 1500, shards=2 if q else 8)
        P += S("release", "ladder", n=6, shards=2 if q else 4, keys=3000 if q else 20000, timeout=2400)
        # capacity() >= len() and the headroom clause also after a caught panic in user code
        P += S("release", "fault", n=60 if q else 1500, shards=2 if q else 4, timeout=5400)
    elif prop == "C05":
        for fl in ["release", "debug", "asan"] + ([] if q else ["msan", "valgrind"]):
            P += S(fl, "sentinels")
        P += S("release", "hist", n=1200 if q else 20000, shards=3, profile="ub")
        P += S("debug", "hist", n=500 if q else 8000, shards=3, profile="ub")
        P += S("asan", "hist", n=1200 if q else 25000, shards=4 if q else 8, profile="ub", timeout=1800)
        P += S("asan", "chains", shards=2 if q else 6, stride=30 if q else 3, timeout=1800)
        P += S("asan", "sets", n=200 if q else 3000, shards=1 if q else 2)
        P += S("asan", "fault", n=40 if q else 300, shards=1 if q else 4, leaks_ok=True, timeout=3000)
        P += S("release", "zst", depth=4) + S("debug", "zst", depth=3)
        P += S("miri", "hist", n=5 if q else 120, shards=8 if q else 14, profile="ub", timeout=3000, leaks_ok=False)
        P += S("miri", "sentinels", timeout=3000)
        P += S("miri", "sets", n=2 if q else 12, shards=1 if q else 3, timeout=3000)
        if not q:
            P += S("msan", "hist", n=6000, shards=3, profile="ub", timeout=2400)
            P += S("valgrind", "hist", n=1500, shards=3, profile="ub", timeout=2400)
            P += S("miri", "chains", shards=6, stride=900, timeout=3000)
    elif prop == "C06":
        P += S("release", "hist", n=5000 if q else 40000, shards=8, profile="drops")
        P += S("debug", "hist", n=1500 if q else 10000, shards=2, profile="drops")
        P += S("asan", "hist", n=800 if q else 10000, shards=3, profile="ub", timeout=1800)
        P += S("release", "sets", n=300 if q else 4000, shards=2)
        P += S("release", "chains", shards=2, stride=40 if q else 6)
        P += S("release", "limits", n=100 if q else 1000)
        P += S("release", "zst", depth=4)
        # lifetimes only (no contents / layout rules): a double drop that is the late consequence
        # of another defect is not masked by the rule that catches that defect first
        P += S("release", "hist", n=3000 if q else 20000, shards=2, profile="drops", ledger_only=1)
        P += S("miri", "hist", n=5 if q else 40, shards=3 if q else 8, profile="drops", timeout=3000, leaks_ok=True)
    elif prop == "C07":
        P += S("release", "fault", n=200 if q else 7000, shards=8 if q else 12, timeout=5400)
        P += S("debug", "fault", n=80 if q else 2500, shards=2 if q else 4, timeout=5400)
        P += S("asan", "fault", n=50 if q else 1200, shards=4 if q else 6, timeout=5400, leaks_ok=True)
        P += S("miri", "fault", n=1 if q else 14, shards=4 if q else 12, timeout=3000, leaks_ok=True)
        # the set wrappers have call paths of their own (replace, take, get_or_insert*, ...)
        P += S("release", "setfault", n=2000 if q else 40000, shards=2 if q else 4, timeout=3000)
        P += S("debug", "setfault", n=600 if q else 8000, shards=1 if q else 2, timeout=3000)
        P += S("asan", "setfault", n=300 if q else 5000, shards=1 if q else 2, timeout=3000, leaks_ok=True)
        P += S("miri", "setfault", n=1 if q else 6, shards=1 if q else 4, timeout=3000, leaks_ok=True)
    elif prop == "C08":
        P += S("release", "hist", n=5000 if q else 40000, shards=8, profile="iters")
        P += S("debug", "hist", n=400 if q else 5000, shards=2, profile="iters")
        P += S("release", "iterstates", n=60 if q else 1500, shards=4 if q else 8)
        P += S("release", "sets", n=300 if q else 4000, shards=2)
    elif prop == "C09":
        P += S("release", "hist", n=8000 if q else 50000, shards=8, profile="partition")
        P += S("debug", "hist", n=2500 if q else 12000, shards=2, profile="partition")
        P += S("release", "sets", n=300 if q else 4000, shards=2)
        P += S("release", "dropbomb", n=600 if q else 5000, shards=2) + S("debug", "dropbomb", n=200 if q else 1000)
        P += S("release", "zst", depth=4)
    elif prop == "C10":
        P += S("release", "sentinels") + S("debug", "sentinels")
        P += S("release", "hist", n=8000 if q else 50000, shards=6, profile="capacity")
        P += S("debug", "hist", n=2500 if q else 12000, shards=4, profile="capacity")
        P += S("release", "sweep", shards=4 if q else 8, maxlen=500 if q else 2400, dense=200 if q else 600, timeout=3000)
        P += S("debug", "sweep", shards=2, maxlen=100 if q else 200, dense=50 if q else 100, timeout=1800)
        P += S("release", "limits", n=300 if q else 3000, shards=2) + S("debug", "limits", n=300 if q else 3000, shards=2)
        P += S("release", "withcap", shards=2 if q else 6, max=1200 if q else 4000) + S("debug", "withcap", shards=1, max=300 if q else 1000)
        P += S("release", "zst", depth=4) + S("debug", "zst", depth=3 if q else 4)
    elif prop == "C11":
        P += S("release", "hist", n=8000 if q else 40000, shards=4, profile="clone")
        P += S("release", "clones", n=6000 if q else 60000, shards=8)
        P += S("debug", "clones", n=2000 if q else 12000, shards=2)
        P += S("release", "sets", n=1500 if q else 10000, shards=2)
        # the destination of a clone_from interrupted by a panic in Clone / Hash: it must have
        # discarded its previous contents and still be a map
        P += S("release", "fault", n=60 if q else 1500, shards=2 if q else 4, timeout=5400)
    elif prop == "C12":
        P += S("release", "chains", shards=12 if q else 14, stride=1, sizes="0,5,20,40,70" if q else "0,1,5,14,20,29,40,57,70,113", timeout=3000)
        P += S("debug", "chains", shards=4, stride=6 if q else 1, timeout=3000)
        P += S("release", "hist", n=6000 if q else 40000, shards=2, profile="entry")
    elif prop == "C13":
        P += S("release", "sets", n=8000 if q else 60000, shards=8)
        P += S("debug", "sets", n=2500 if q else 15000, shards=4)
        P += S("release", "zst", depth=4) + S("release", "sentinels")
    elif prop == "C14":
        P += S("release", "meta", n=8000 if q else 80000, shards=8)
        P += S("debug", "meta", n=2500 if q else 15000, shards=4)
    elif prop == "C15":
        P += S("ext", "par", n=60 if q else 1500, shards=8 if q else 14, timeout=3000)
        P += S("tsan", "par", n=4 if q else 60, shards=3 if q else 4, timeout=1800)
        P += S("miriext", "par", n=1, shards=2 if q else 8, timeout=3000, small=1)
    elif prop == "C16":
        P += S("ext", "serde", n=3000 if q else 30000, shards=4 if q else 8)
        P += S("extdebug", "serde", n=1000 if q else 6000, shards=2)
    elif prop == "C17":
        # pairs of transcripts: same args, release vs debug
        for prof, n, sh in [("general", 3000 if q else 20000, 4), ("capacity", 2500 if q else 15000, 3), ("entry", 2500 if q else 15000, 3), ("ub", 2000 if q else 10000, 2), ("partition", 1500 if q else 8000, 1), ("clone", 1500 if q else 8000, 1)]:
            for i in range(sh):
                for fl in ("release", "debug"):
                    P.append({"fl": fl, "args": ["hist", "--n", str(n), "--profile", prof, "--shard", f"{i}/{sh}"], "timeout": 1800, "leaks_ok": False,
                              "transcript": f"{prof}-{i}"})
        for fl in ("release", "debug"):
            P.append({"fl": fl, "args": ["limits", "--n", str(400 if q else 3000), "--shard", "0/1"], "timeout": 1800, "leaks_ok": False, "transcript": "limits-0"})
            # every history of zero-sized-element operations (debug-only assertions of the
            # dependency live there: offset_from on zero-sized pointees)
            P.append({"fl": fl, "args": ["zst", "--depth", "4", "--shard", "0/1"], "timeout": 1800, "leaks_ok": False, "transcript": "zst-0"})
            # set histories (one summary line with a digest of every call's outcome) and set algebra
            P.append({"fl": fl, "args": ["sets", "--n", str(1500 if q else 10000), "--shard", "0/1"], "timeout": 1800, "leaks_ok": False, "transcript": "sets-0"})
    else:
        raise SystemExit(f"unknown property {prop}")
    if q:
        # quick shards take seconds to a few minutes: a tight watchdog keeps a hang (e.g. a probe
        # loop that never ends on a corrupted table) from stalling the check for an hour
        for sh in P:
            sh["timeout"] = min(sh["timeout"], 1500 if sh["fl"].startswith("miri") else 900)
    if not q:
        # the thorough tier has minutes, not seconds: deepen the cheap (native, non-sanitizer)
        # random workloads by a constant factor
        boost = int(os.environ.get("VERIF_THOROUGH_BOOST", "12"))
        for sh in P:
            if "transcript" in sh:
                continue
            if sh["fl"] in ("release", "debug", "ext", "extdebug") and sh["args"][0] in ("hist", "sets", "meta", "clones", "serde", "plain", "limits", "iterstates", "dropbomb", "prefix", "par", "setfault"):
                a = sh["args"]
                if "--n" in a:
                    i = a.index("--n")
                    a[i + 1] = str(int(a[i + 1]) * boost)
                sh["timeout"] = max(sh["timeout"], 5400)
    return P

# properties whose statement covers "the call completes / is memory-safe": a crash of a shard
# (signal, sanitizer abort) is a violation for them, inconclusive for the others
CRASH_IS_VIOLATION = {"C01", "C05", "C07", "C12", "C13"}

# ------------------------------------------------------------------------------------------
# minimum observation rules: (description, predicate over merged counts)
# ------------------------------------------------------------------------------------------

def min_rules(prop, tier, M):
    c = M["counts"]
    g = lambda k: c.get(k, 0)
    R = []
    def need(desc, ok):
        R.append((desc, bool(ok)))
    if prop in ("C01", "C05", "C06", "C08", "C09"):
        need("at least 1000 checked calls aimed at old-table elements", g("loc_old_cursor_group") + g("loc_old_beyond") >= 1000)
        need("calls observed in split phases P2,P3,P3r,P4", all(g("phase_" + p) > 0 for p in ("P2", "P3", "P3r", "P4")))
    if prop == "C02":
        need("at least 50000 key-adding calls measured", g("key_adding_calls") >= 50000)
        need("at least 100 growths", g("growths") >= 100)
        need("maps of at least 4000 elements", g("max_len") >= 4000)
    if prop == "C03":
        need("at least 100 growths followed to completion", g("resizes_completed") >= 100)
        need("old tables emptied by removals seen", g("removed_from_old") >= 100)
        need("empty-but-present old tables seen", g("empty_old_table_states") >= 1)
    if prop == "C04":
        need("at least 2000 probes", g("probes") >= 2000)
        need("tight states probed (slack 0, 1 and 2)", g("probe_slack_0") > 0 and g("probe_slack_1") > 0 and g("probe_slack_2") > 0)
    if prop == "C05":
        need("cursor agreement checked on multi-group old tables", g("cursor_checks_multi_group") >= 1000)
    if prop == "C07":
        need("at least 1000 faults injected and every armed fuse fired", g("faults_injected") >= 1000 and g("fuse_not_fired") == 0)
        need("faults in every callback kind", all(g("faults_" + k) > 0 for k in ("Hash", "Eq", "Clone", "Closure")))
        need("faults while a resize was in flight", g("faults_split_state") > 0)
    if prop == "C10":
        need("overflow / over-limit arguments exercised", g("overflow_arguments") >= 20)
        need("allocation failures injected", g("alloc_failures_injected") >= 10)
        need("capacity calls in split phases", g("capacity_calls_split") > 0 or g("phase_P2") > 0)
    if prop == "C11":
        need("clone pairs with split source and split destination", g("clone_src_split") > 0 and g("clone_dst_split") > 0)
    if prop == "C12":
        need("chains on keys in every location class", all(g("chain_cases_key_" + k) > 0 for k in ("absent", "main", "old_cursor_group", "old_beyond")))
    if prop == "C13":
        need("algebra with split operands on both sides", g("algebra_operand_a_split") > 0 and g("algebra_operand_b_split") > 0)
        need("set calls on old-table elements", g("set_calls_on_old_table_element") >= 100)
    if prop == "C14":
        need("pairs with differing phases compared", g("meta_pairs_phase_differs") > 0)
        need("negative cases with the differing element in an old table", g("meta_negative_old") > 0)
    if prop == "C15":
        need("traversals of split maps", g("par_split_maps") > 0)
        need("at least 2 distinct element-to-worker partitions", g("par_distinct_partitions") >= 2)
    if prop == "C16":
        need("round trips of split collections", g("serde_split") > 0)
    if prop == "C17":
        need("at least 10000 transcript lines compared", g("transcript_lines_compared") >= 10000)
        need("at least 5% of the lines produced in a split phase", g("transcript_lines_split") * 20 >= g("transcript_lines_compared"))
    return R

RULES = {
    "C01": "random and phase-targeted operation histories (one per evaluation) over u64 / tracked / heap-owning / zero-sized elements and six hash functions, every return value, len and the full contents (object identities included) compared with a BTreeMap model after every call; non-trivial = history reached an in-flight resize AND executed a checked call on an element that was in the old table; distinct by digest of the concrete op list",
    "C02": "growth ladders and random histories; every call's hash computations (counting BuildHasher), table allocations (alignment-classified global allocator) and elements moved (hook) compared with the per-call bound; non-trivial = history with >=3 growths and >=3 completed resizes (ladders) or that reached a split state and touched an old-table element; distinct by op-list digest",
    "C03": "growth ladders, random histories and entry-chain cases; leftover count before/after every call checked against the progress rule, old-table reclamation and the allocator's live-table ledger; non-trivial/distinct as for C02",
    "C04": "boundary sweep (every len x split route x capacity call x boundary argument, then the probe), random histories ending in the probe, and the probe at every prefix of short histories; non-trivial = case reached a split state and ran at least one probe; distinct by op-list digest",
    "C05": "histories biased to the five ways of removing from the old table, run in release, debug-assertion, AddressSanitizer, Miri (and MSan, valgrind in the thorough tier) builds; cached-iterator vs old-table agreement from the hook and liveness/canary checks of every object after every call; non-trivial = history reached a split state and touched an old-table element; distinct by op-list digest",
    "C06": "histories with drop-tracked keys and values: ledger conservation (live objects == 2 x len) after every call, objects the call must drop are dropped, returned objects are the expected ones, nothing live after the map is dropped, allocator balance, LeakSanitizer; non-trivial = reached a split state and touched an old-table element; distinct by op-list digest",
    "C07": "for every (state, operation) case a panic is injected at every invocation index of every callback kind; one evaluation = one injected fault; non-trivial = the fuse fired while the map was mid-resize or the operation targeted an old-table element; distinct by (case digest, kind, index)",
    "C08": "iterator histories and directed iterator states: yielded multiset, len()/size_hint() at every step, fusedness, clone independence, early drop / forget of drain and into_iter; non-trivial = reached a split state and touched an old-table element; distinct by op-list digest",
    "C09": "retain / drain_filter with predicates chosen from the hook (none, all, exactly the old table, exactly the main table, subsets), value mutation, early drop and forget at every prefix; non-trivial/distinct as C08",
    "C10": "capacity calls with boundary arguments in every phase, arguments around usize::MAX / isize::MAX, injected allocation failure, in release and debug-assertion builds; non-trivial = case issued a capacity call while split or with an overflowing argument; distinct by op-list digest",
    "C11": "clone / clone_from between maps in independently chosen phases and differently seeded hashers, followed by divergent histories on both sides, each side checked against its own model and the ledger (no shared objects); non-trivial = source or destination was split; distinct by digest of both op lists",
    "C12": "complete enumeration of entry and raw-entry method chains up to depth 3 x key location class x explored state, each followed by lookups and R+1 inserts; non-trivial = the case ran on a split map; distinct by op-list digest",
    "C13": "set histories against a BTreeSet model and pairwise algebra (lazy iterators, operators, predicates) for operand pairs in independently chosen phases, both argument orders; non-trivial = a set call hit an old-table element / an algebra operand was split; distinct by digest",
    "C14": "pairs and triples of maps/sets built to the same or minimally different contents through different histories, capacities, phases and hashers; non-trivial = the two layouts differ in phase; distinct by digest of contents and build recipes",
    "C15": "parallel traversals of maps/sets in every phase on pools of 1..16 threads with jitter: per-element visit counters, collected multisets, parallel set algebra and predicates vs sequential; ThreadSanitizer and Miri runs; non-trivial = the traversed collection was split; distinct by (contents digest, pool size, observed partition)",
    "C16": "serde_test token streams vs iter(), round trips, deserialize_in_place into destinations in every phase; non-trivial = the collection was split; distinct by contents digest",
    "C17": "identical seeded histories executed by a release and a debug-assertion build of the same harness, transcripts (op, observation or panic message, len, capacity) compared line by line; one evaluation = one history compared; non-trivial = history reached a split state; distinct by op-list digest",
}

ASSUME = [
    "the hook (cargo feature verif) is read-only and reports the real fields",
    "hashbrown 0.14.5 table allocations are recognised by their alignment (>= 16 with the SSE2 group)",
    "a silent run means: held on the executions listed here, not for all histories",
]

# ------------------------------------------------------------------------------------------

def run_shard_once(idx, sh, binary, prop, seed, logdir, attempt, skip):
    fl = sh["fl"]
    args = list(sh["args"]) + ["--seed", str(seed), "--prop", prop, "--replays", REPLAYS]
    if fl in ("asan", "asanext", "msan", "valgrind", "miri", "miriext") and not sh.get("leaks_ok"):
        args += ["--noforget", "1"]
    tfile = None
    if "transcript" in sh:
        tfile = os.path.join(logdir, f"transcript-{sh['transcript']}-{fl}.txt")
        # per-line digests keep the files small; the full text of a diverging history is
        # regenerated by compare_transcripts
        args += ["--transcript", tfile, "--transcript-digest", "1"]
    pfile = None
    if sh["args"][0] in RESUMABLE and "transcript" not in sh:
        pfile = os.path.join(logdir, f"progress-{idx:02d}")
        args += ["--progress", pfile]
        if skip:
            args += ["--skip", str(skip)]
    cmd = shard_cmd(fl, binary, args)
    env = miri_env(fl, sh.get("leaks_ok")) if fl in ("miri", "miriext") else run_env(fl)
    if fl in ("asan", "asanext") and sh.get("leaks_ok"):
        env["ASAN_OPTIONS"] = env["ASAN_OPTIONS"].replace("detect_leaks=1", "detect_leaks=0")
    t0 = time.time()
    logp = os.path.join(logdir, f"shard-{idx:02d}-{fl}-{sh['args'][0]}" + (f"-r{attempt}" if attempt else "") + ".log")
    try:
        p = subprocess.run(cmd, cwd=H, env=env, stdout=subprocess.PIPE, stderr=subprocess.PIPE, text=True, timeout=sh["timeout"], errors="replace")
        rc, out, err, timed_out = p.returncode, p.stdout, p.stderr, False
    except subprocess.TimeoutExpired as e:
        rc, timed_out = -999, True
        out = e.stdout.decode(errors="replace") if isinstance(e.stdout, bytes) else (e.stdout or "")
        err = e.stderr.decode(errors="replace") if isinstance(e.stderr, bytes) else (e.stderr or "")
    with open(logp, "w") as f:
        f.write(f"## {' '.join(cmd)}\n## rc={rc} wall={time.time()-t0:.1f}s\n--- stdout\n{out[-200000:]}\n--- stderr\n{err[-200000:]}\n")
    res = None
    for line in out.splitlines():
        if line.startswith("RESULT "):
            try:
                res = json.loads(line[7:])
            except Exception:
                res = None
    died_at = None
    if res is None and pfile and not timed_out:
        try:
            died_at = int(open(pfile).read().strip())
        except Exception:
            died_at = None
    return {"idx": idx, "sh": sh, "rc": rc, "out": out, "err": err, "res": res, "timed_out": timed_out, "wall": time.time() - t0, "log": logp, "transcript": tfile, "died_at": died_at, "attempt": attempt}

# workloads that can resume after the history that killed the process
RESUMABLE = ("hist", "sets")
MAX_RESTARTS = 12

def tsan_deque_only(r):
    """True if every ThreadSanitizer report of this run is about the slots of rayon's work-stealing
    deque (volatile reads / writes of `JobRef` in crossbeam-deque), a known limitation of the tool."""
    text = (r.get("err") or "") + "\n" + (r.get("out") or "")
    sums = [l for l in text.splitlines() if l.startswith("SUMMARY: ThreadSanitizer")]
    return bool(sums) and all("rayon_core::job::JobRef" in l and "volatile" in l for l in sums)

def run_shard(idx, sh, binary, prop, seed, logdir):
    """Run one shard; if the process dies inside history h, record the crash and resume at h+1."""
    out = []
    skip = 0
    hangs = 0
    deque_retries = 0
    for attempt in range(MAX_RESTARTS + 1):
        r = run_shard_once(idx, sh, binary, prop, seed, logdir, attempt, skip)
        if sh["fl"] == "tsan" and r["rc"] == 66 and tsan_deque_only(r) and deque_retries < 3:
            # not about the crate under test (and the suppression file should have caught it): run again
            deque_retries += 1
            continue
        out.append(r)
        if r["res"] is not None or r["died_at"] is None:
            break
        if r["rc"] == 86:
            # each hang costs the watchdog's patience: do not chase more than three per shard
            hangs += 1
            if hangs >= 3:
                break
        skip = r["died_at"] + 1
    return out

def merge(results):
    M = {"evaluations": 0, "distinct_nontrivial": 0, "samples": [], "counts": {}, "by_code": {}, "phase_code": {}, "notes": {}, "violations": [], "also": {}, "harness_errors": [], "flavours": {}}
    maxkeys = ("max_len", "max_old_buckets", "max_hashes_per_adding_call", "max_moved_per_call", "largest_map", "entry_chains_enumerated", "raw_entry_chains_enumerated", "par_max_threads")
    for r in results:
        d = r["res"]
        fl = r["sh"]["fl"]
        F = M["flavours"].setdefault(fl, {"shards": 0, "shards_completed": 0, "calls": 0, "evaluations": 0, "sanitizer_reports": 0, "wall_s": 0.0})
        F["shards"] += 1
        F["wall_s"] = round(F["wall_s"] + r["wall"], 1)
        if d is None:
            continue
        F["shards_completed"] += 1
        F["calls"] += d["counts"].get("calls", 0)
        F["evaluations"] += d["evaluations"]
        M["evaluations"] += d["evaluations"]
        M["distinct_nontrivial"] += d["distinct_nontrivial"]
        for s in d["samples"]:
            if len(M["samples"]) < 4:
                M["samples"].append(s)
        for k, v in d["counts"].items():
            if k in maxkeys:
                M["counts"][k] = max(M["counts"].get(k, 0), v)
            elif k != "wall_ms":
                M["counts"][k] = M["counts"].get(k, 0) + v
        for k, v in d["by_code"].items():
            M["by_code"][k] = M["by_code"].get(k, 0) + v
        for k, v in d["phase_code"].items():
            M["phase_code"][k] = M["phase_code"].get(k, 0) + v
        M["notes"].update(d["notes"])
        M["violations"] += d["violations"]
        for k, v in d["also"].items():
            a = M["also"].setdefault(k, {"count": 0, "first": v["first"]})
            a["count"] += v["count"]
        M["harness_errors"] += d["harness_errors"]
    return M

def first_in_repo_frame(text):
    for line in text.splitlines():
        m = re.search(r"(/repo/src/[^\s:]+:\d+|hashbrown-[\d.]+/src/[^\s:]+:\d+)", line)
        if m:
            return m.group(1)
    return "?"

def rerun_history_full(r, hist_index, binaries, prop, seed, logdir):
    """Re-run one history of a transcript shard with full-text lines; returns the lines."""
    sh = r["sh"]
    fl = sh["fl"]
    args = list(sh["args"])
    if "--n" in args:
        i = args.index("--n")
        args[i + 1] = str(hist_index + 1)
    else:
        args += ["--n", str(hist_index + 1)]
    out = os.path.join(logdir, f"transcript-full-{sh['transcript']}-{fl}.txt")
    args += ["--skip", str(hist_index), "--seed", str(seed), "--prop", prop, "--replays", REPLAYS, "--transcript", out]
    try:
        subprocess.run(shard_cmd(fl, binaries.get(fl), args), cwd=H, env=run_env(fl), stdout=subprocess.PIPE, stderr=subprocess.PIPE, text=True, timeout=600, errors="replace")
        return open(out).read().splitlines()
    except Exception:
        return None

def compare_transcripts(results, logdir, prop, binaries=None, seed=1):
    """C17: line-by-line comparison of the transcripts of the release and the debug build.

    Transcripts are appended history by history, so a process that died still leaves what it
    completed. If one build died in a history the other build completed, that is a divergence;
    if both died at the same point nothing is concluded from the tail."""
    pairs = {}
    for r in results:
        if r["transcript"]:
            pairs.setdefault(r["sh"]["transcript"], {})[r["sh"]["fl"]] = r
    compared = split = hists = 0
    viols = []
    inconclusive = []
    digests = set()
    def died(r):
        return r["timed_out"] or r["rc"] not in (0, 1, 2) or r["res"] is None
    def how(r):
        if r["timed_out"]:
            return "did not finish (watchdog)"
        if r["rc"] == 86:
            return "hung inside a call (no progress for 60 s)"
        if r["rc"] == -9:
            return "was killed (SIGKILL)"
        return f"died with exit status {r['rc']}"
    for name, p in sorted(pairs.items()):
        if "release" not in p or "debug" not in p:
            continue
        ra_, rb_ = p["release"], p["debug"]
        if ra_["rc"] == -9 or rb_["rc"] == -9 or ra_["timed_out"] or rb_["timed_out"]:
            inconclusive.append(f"transcript-pair-{name}:killed-or-watchdog")
        try:
            a = open(ra_["transcript"]).read().splitlines()
            b = open(rb_["transcript"]).read().splitlines()
        except OSError:
            inconclusive.append(f"transcript-pair-{name}:missing")
            continue
        n = min(len(a), len(b))
        diff_at = None
        cur_hist_start = 0
        cur_split = False
        for i in range(n):
            if a[i].startswith("## history"):
                cur_hist_start = i
                cur_split = False
                hists += 1
            if a[i] != b[i]:
                diff_at = i
                break
            if not a[i].startswith("##"):
                compared += 1
                if " split=1" in a[i]:
                    split += 1
                    cur_split = True
            if a[i].startswith("## end") and cur_split:
                digests.add(hash(tuple(a[cur_hist_start:i])))
        msg = None
        if diff_at is not None:
            ra = a[diff_at]
            rb = b[diff_at]
            # the lines are digests: regenerate the diverging history in full text
            hs = diff_at
            while hs > 0 and not a[hs].startswith("## history"):
                hs -= 1
            m = re.match(r"## history (\d+)", a[hs]) if a else None
            fa = fb = None
            if m and binaries is not None:
                fa = rerun_history_full(ra_, int(m.group(1)), binaries, prop, seed, logdir)
                fb = rerun_history_full(rb_, int(m.group(1)), binaries, prop, seed, logdir)
            if fa and fb:
                k = next((i for i in range(min(len(fa), len(fb))) if fa[i] != fb[i]), min(len(fa), len(fb)))
                la = fa[k] if k < len(fa) else "<end>"
                lb = fb[k] if k < len(fb) else "<end>"
                msg = f"release and debug builds diverge ({name}, {a[hs][:120]}): release `{la[:300]}` vs debug `{lb[:300]}`"
                a, b, diff_at = fa, fb, k
            else:
                msg = f"release and debug builds diverge ({name}, line {diff_at+1}): release `{ra[:300]}` vs debug `{rb[:300]}`"
        elif len(a) != len(b):
            # one transcript stops early
            short, long_, sr, lr, sn, ln = (a, b, ra_, rb_, "release", "debug") if len(a) < len(b) else (b, a, rb_, ra_, "debug", "release")
            if died(sr) and sr["rc"] != -9 and not sr["timed_out"]:
                hs = len(short) - 1
                while hs > 0 and not short[hs].startswith("## history"):
                    hs -= 1
                msg = (f"release and debug builds diverge ({name}): the {sn} build {how(sr)} during `{short[hs][:200] if short else '?'}` "
                       f"while the {ln} build completed that history (next line: `{long_[len(short)][:200]}`)")
                diff_at = len(short)
            elif not died(sr):
                msg = f"release and debug builds diverge ({name}): the {sn} transcript ends after {len(short)} lines, the {ln} one continues"
                diff_at = len(short)
        elif died(ra_) and died(rb_) and how(ra_) != how(rb_) and ra_["rc"] != -9 and rb_["rc"] != -9 and not ra_["timed_out"] and not rb_["timed_out"]:
            hs = len(a) - 1
            while hs > 0 and not a[hs].startswith("## history"):
                hs -= 1
            msg = f"release and debug builds diverge ({name}) in `{a[hs][:200] if a else '?'}`: the release build {how(ra_)}, the debug build {how(rb_)}"
            diff_at = len(a)
        elif died(ra_) and died(rb_):
            inconclusive.append(f"transcript-pair-{name}:both-builds-died-at-the-same-point")
        if msg is not None:
            os.makedirs(os.path.join(REPLAYS, prop), exist_ok=True)
            path = os.path.join(REPLAYS, prop, f"transcript-diff-{name}.replay")
            lo = max(0, diff_at - 25)
            hs = min(diff_at, len(a) - 1)
            while hs > 0 and not a[hs].startswith("## history"):
                hs -= 1
            with open(path, "w") as f:
                f.write(f"# gv replay\nproperty {prop}\nkind transcript-diff\nshard {' '.join(ra_['sh']['args'])}\n")
                f.write(f"message {msg}\n")
                f.write("history " + (a[hs] if a and hs < len(a) else "?") + "\n")
                f.write("--- release\n" + "\n".join(a[lo:diff_at + 3]) + "\n--- debug\n" + "\n".join(b[lo:diff_at + 3]) + "\n")
                f.write(f"--- release stderr tail\n{(ra_['err'] or '')[-1500:]}\n--- debug stderr tail\n{(rb_['err'] or '')[-1500:]}\n")
            viols.append((msg, path))
        # the digest transcripts are only needed for the comparison (the replay file has the
        # full-text excerpt of a diverging history)
        for rr in (ra_, rb_):
            try:
                os.remove(rr["transcript"])
            except OSError:
                pass
    return compared, split, hists, len(digests), viols, inconclusive

def load_known():
    p = os.path.join(ROOT, "known_findings.json")
    try:
        return json.load(open(p))
    except Exception:
        return {"findings": []}

def main():
    ap = argparse.ArgumentParser()
    ap.add_argument("--property")
    ap.add_argument("--tier", default=os.environ.get("VERIF_TIER", "quick"))
    ap.add_argument("--replay")
    ap.add_argument("--setup", action="store_true")
    ap.add_argument("--jobs", type=int, default=NCPU)
    a = ap.parse_args()
    os.makedirs(EVID, exist_ok=True); os.makedirs(REPLAYS, exist_ok=True); os.makedirs(LOGS, exist_ok=True)
    seed = int(os.environ.get("VERIF_SEED", "1") or "1")

    if a.setup:
        log = open(os.path.join(LOGS, "setup.log"), "w")
        ok = True
        for fl in ["release", "debug", "asan", "ext", "extdebug", "tsan"]:
            try:
                build(fl, log)
                print(f"built {fl}")
            except BuildError as e:
                ok = False
                print(f"build of {fl} failed:\n{e.out[-1500:]}")
        # warm the miri sysroot and dependency build
        for fl, extra in (("miri", []), ("miriext", ["--features", "ext"])):
            p = subprocess.run(["cargo", "+nightly", "miri", "run", "-q", "--offline", "--target-dir", "target-" + fl] + extra + ["--", "noop"], cwd=H, env=miri_env(fl, True),
                               stdout=subprocess.PIPE, stderr=subprocess.STDOUT, text=True)
            print(f"miri warm-up ({fl}) rc={p.returncode}")
            if p.returncode != 0:
                log.write(p.stdout[-4000:])
        return 0 if ok else 1

    if a.replay:
        log = open(os.path.join(LOGS, "replay.log"), "w")
        fl = "release"
        try:
            for line in open(a.replay):
                if line.startswith("flavour "):
                    fl = {"release": "release", "debug": "debug", "miri": "release"}.get(line.split()[1], "release")
        except OSError:
            print(f"cannot read {a.replay}"); return 2
        binary = build(fl, log)
        p = subprocess.run([binary, "replay", os.path.abspath(a.replay)], cwd=H, env=run_env(fl))
        return p.returncode

    prop, tier = a.property, a.tier
    if tier not in ("quick", "thorough"):
        tier = "quick"
    t0 = time.time()
    logdir = os.path.join(LOGS, f"{prop}-{tier}")
    shutil.rmtree(logdir, ignore_errors=True); os.makedirs(logdir, exist_ok=True)
    log = open(os.path.join(logdir, "driver.log"), "w")
    evp = os.path.join(EVID, f"{prop}.json")
    shards = plan(prop, tier)
    flavours = sorted({s["fl"] for s in shards})
    binaries = {}
    def inconclusive(reason):
        print(f"INCONCLUSIVE property={prop} reason={reason}")
        ev = {"property_id": prop, "tier": tier, "seed": seed, "level": LEVEL[prop],
              "coverage": {"evaluations": 0, "distinct_nontrivial": 0, "rule": RULES[prop], "samples": [], "inconclusive": reason},
              "assumptions": ASSUME, "wall_s": round(time.time() - t0, 1), "violations": 0}
        json.dump(ev, open(evp, "w"), indent=1)
        return 2
    # builds (sequential per flavour: they share the cargo lock on the registry, and each uses all cores)
    try:
        for fl in flavours:
            binaries[fl] = build(fl, log)
    except BuildError as e:
        print(e.out[-2500:])
        return inconclusive(f"build-failed:{e.fl}")
    # run
    jobs = max(1, a.jobs)
    results = []
    with ThreadPoolExecutor(max_workers=jobs) as ex:
        futs = [ex.submit(run_shard, i, sh, binaries.get(sh["fl"]), prop, seed + 7919 * 0, logdir) for i, sh in enumerate(shards)]
        for f in futs:
            results.extend(f.result())
    M = merge(results)
    violations = list(M["violations"])  # [{"msg":..., "replay":...}]
    inconclusive_reasons = []
    sanitizer_reports = {}
    for r in results:
        fl = r["sh"]["fl"]
        for line in r["out"].splitlines():
            if line.startswith("ALSO-OBSERVED"):
                log.write(f"[{fl}] {line}\n")
        if r["timed_out"]:
            inconclusive_reasons.append(f"watchdog:{fl}:{r['sh']['args'][0]}")
            continue
        if r["rc"] in (0, 1) and r["res"] is not None:
            continue
        if r["rc"] == 2 and r["res"] is not None:
            inconclusive_reasons.append(f"harness-error:{fl}:{r['sh']['args'][0]}")
            continue
        # crash, sanitizer report or interpreter error
        text = (r["err"] or "") + "\n" + (r["out"] or "")
        # violations the shard reported before it died are not lost with its RESULT line
        if r["res"] is None and prop != "C17":
            ol = (r["out"] or "").splitlines()
            for i, line in enumerate(ol):
                m = re.match(r"VIOLATION property=(\S+) replay=(\S+)", line)
                if m and m.group(1) == prop:
                    det = ol[i + 1].strip()[8:] if i + 1 < len(ol) and ol[i + 1].startswith("  detail") else "(no detail)"
                    violations.append({"msg": det, "replay": m.group(2)})
        if r["rc"] == -9:
            # SIGKILL comes from outside the process (out-of-memory killer, operator): never a verdict
            inconclusive_reasons.append(f"killed-by-SIGKILL(out-of-memory?):{fl}:{r['sh']['args'][0]}")
            continue
        if fl == "tsan" and tsan_deque_only(r):
            print("NOTE a ThreadSanitizer report about rayon's work-stealing deque (crossbeam-deque buffer slots) was ignored: not griddle's code, a known limitation of the tool")
            continue
        kind = "crash"
        if r["rc"] == 86 and "FATAL hang" in text:
            kind = "hang"
        if "AddressSanitizer" in text or "LeakSanitizer" in text or "MemorySanitizer" in text or "ThreadSanitizer" in text:
            kind = "sanitizer"
        elif fl.startswith("miri") and ("Undefined Behavior" in text or "error: unsupported operation" in text or "memory leaked" in text):
            kind = "miri"
        elif fl == "valgrind" and r["rc"] == 66:
            kind = "valgrind"
        if "error: unsupported operation" in text and "Undefined Behavior" not in text:
            inconclusive_reasons.append(f"miri-unsupported:{fl}:{r['sh']['args'][0]}")
            continue
        if kind == "miri" and "memory leaked" in text and "Undefined Behavior" not in text:
            what = "LeakSanitizer-equivalent: Miri reports leaked memory"
            sig = "miri-leak"
        else:
            sig = first_in_repo_frame(text)
            first = next((l for l in text.splitlines() if "ERROR:" in l or "Undefined Behavior" in l or "SUMMARY" in l or "panicked" in l or "FATAL" in l or "aborting" in l or "malloc(" in l or "free(" in l or "corrupt" in l or "double free" in l or "stack smashing" in l), "no message")
            first = f"{first} (exit status {r['rc']})"
            what = f"{kind} in flavour {fl} ({r['sh']['args'][0]}): {first.strip()[:300]} [first in-repo frame {sig}]"
        sanitizer_reports.setdefault(fl, 0)
        sanitizer_reports[fl] += 1
        is_leak = "LeakSanitizer" in text or sig == "miri-leak"
        hit_props = {"C06"} if is_leak else ({"C05"} | ({prop} if prop in CRASH_IS_VIOLATION else set()))
        if re.search(r"double[- ]free", text):
            # the allocator / sanitizer saw the same object released twice: C06's "never twice"
            hit_props |= {"C06"}
        if kind == "sanitizer" and "ThreadSanitizer" in text:
            hit_props = {"C15"}
        if prop in hit_props:
            os.makedirs(os.path.join(REPLAYS, prop), exist_ok=True)
            path = os.path.join(REPLAYS, prop, f"{kind}-{fl}-{r['idx']}.replay")
            with open(path, "w") as f:
                f.write(f"# gv replay\nproperty {prop}\nkind {kind}\nflavour {fl}\nmessage {what}\ncommand {' '.join(shard_cmd(fl, binaries.get(fl), r['sh']['args'] + ['--seed', str(seed), '--prop', prop]))}\n--- output tail\n{text[-6000:]}\n")
            violations.append({"msg": what, "replay": path})
            print(f"VIOLATION property={prop} replay={path}")
            print(f"  detail: {what}")
        else:
            print(f"ALSO-OBSERVED property={'/'.join(sorted(hit_props))} {what}")
            inconclusive_reasons.append(f"{kind}:{fl}:{r['sh']['args'][0]}")
    for fl, n in sanitizer_reports.items():
        M["flavours"][fl]["sanitizer_reports"] = n
    # C17: compare transcripts
    if prop == "C17":
        compared, split, hists, nd, tviol, tinc = compare_transcripts(results, logdir, prop, binaries, seed)
        # crashes of transcript shards are judged by the comparison above, not one by one
        inconclusive_reasons = [x for x in inconclusive_reasons if not x.startswith(("crash:", "hang:", "sanitizer:"))] + tinc
        M["counts"]["transcript_lines_compared"] = compared
        M["counts"]["transcript_lines_split"] = split
        M["evaluations"] = hists
        M["distinct_nontrivial"] = nd
        # within-binary violations of other properties do not count for C17; divergence does
        violations = [{"msg": m, "replay": p} for (m, p) in tviol]
        for m, p in tviol:
            print(f"VIOLATION property={prop} replay={p}")
            print(f"  detail: {m}")
    # echo shard-level violation lines (already attributed by the harness)
    for r in results:
        if prop == "C17":
            break
        lines = r["out"].splitlines()
        for i, line in enumerate(lines):
            if line.startswith("VIOLATION "):
                print(line)
                if i + 1 < len(lines) and lines[i + 1].startswith("  detail"):
                    print(lines[i + 1][:600])
    for k, v in sorted(M["also"].items()):
        print(f"ALSO-OBSERVED property={k} x{v['count']}: {v['first'][:300]}")
    # known findings
    known = load_known()
    open_findings = [f for f in known.get("findings", []) if f.get("status") == "open" and f.get("property") == prop]
    unlisted = []
    for v in violations:
        hit = None
        for f in open_findings:
            if re.search(f["signature"], v["msg"]):
                hit = f
        if hit is None:
            unlisted.append(v)
    for f in open_findings:
        print(f"KNOWN-FINDING: property={prop} {f['what']}")
    rules = min_rules(prop, tier, M)
    unmet = [d for d, ok in rules if not ok]
    cov = {
        "evaluations": M["evaluations"],
        "distinct_nontrivial": M["distinct_nontrivial"],
        "rule": RULES[prop],
        "samples": M["samples"],
        "exhaustive": False,
        "observed": M["counts"],
        "calls_by_operation": M["by_code"],
        "checked_calls_by_phase_and_operation": M["phase_code"],
        "flavours": M["flavours"],
        "notes": M["notes"],
        "minimum_observation_rules": [{"rule": d, "met": ok} for d, ok in rules],
        "also_observed_other_properties": M["also"],
        "shards": len(shards),
    }
    ev = {"property_id": prop, "tier": tier, "seed": seed, "level": LEVEL[prop], "coverage": cov, "assumptions": ASSUME,
          "wall_s": round(time.time() - t0, 1), "violations": len(unlisted)}
    json.dump(ev, open(evp, "w"), indent=1)
    fl_summary = ", ".join("%s:%d/%d" % (k, v["shards_completed"], v["shards"]) for k, v in sorted(M["flavours"].items()))
    print("%s %s: %d evaluations, %d distinct non-trivial, %d shards, %.1fs, flavours %s" % (prop, tier, M["evaluations"], M["distinct_nontrivial"], len(shards), ev["wall_s"], fl_summary))
    if unlisted:
        return 1
    if M["harness_errors"]:
        for h in M["harness_errors"][:3]:
            print(f"INCONCLUSIVE property={prop} reason=harness-error {h[:400]}")
        return 2
    if inconclusive_reasons:
        print(f"INCONCLUSIVE property={prop} reason={','.join(sorted(set(inconclusive_reasons)))[:600]}")
        return 2
    if unmet:
        print(f"INCONCLUSIVE property={prop} reason=observed-too-little: {'; '.join(unmet)}")
        return 2
    return 0

if __name__ == "__main__":
    sys.exit(main())
