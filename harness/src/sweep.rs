//! Directed / exhaustive workloads built on scripted sessions:
//! growth ladders (C02, C03), boundary sweeps (C04, C10), entry-chain enumeration (C12),
//! zero-sized element enumeration, and the regression sentinels for the repaired defects.

use crate::base::*;
use crate::chain::enumerate_chains;
use crate::gen::*;
use crate::mon::*;
use crate::ops::step::*;
use crate::ops::*;
use crate::run::*;
use crate::work::Shard;
use griddle::verif::Location;

/// A call that adds the (absent) key `k`: mostly `insert`, but every key-adding call has to
/// behave the same way (work per call, progress of the resize, headroom), so the directed
/// builders rotate through them.
pub fn add_op(k: u64, v: u64) -> Op {
    match mix(k ^ 0x1e57) % 12 {
        0 => Op::k(Code::Entry, k).with_list(vec![E_OR_INSERT, v]),
        1 => Op::k(Code::Entry, k).with_list(vec![E_MATCH, 0, V_INSERT, v]),
        2 => Op::k(Code::Entry, k).with_list(vec![E_INSERT, v]),
        3 => Op::k(Code::RawEntryMut, k).with_list(vec![RE_OR_INSERT, v]),
        4 => Op::k(Code::RawEntryMut, k).with_list(vec![RE_MATCH, 0, RV_INSERT, v]),
        _ => Op::kv(Code::Insert, k, v),
    }
}

/// A monitor plus the log of concrete ops applied to it.
pub struct Sess<K: El, V: El> {
    pub mon: Mon<K, V>,
    pub ops: Vec<Op>,
    pub viol: Option<(Viol, usize)>,
    /// a key singled out by a scenario builder (state 7)
    pub special: Option<u64>,
}

impl<K: El, V: El> Sess<K, V> {
    pub fn new(cfg: &Cfg) -> Self {
        Sess { mon: new_mon(cfg), ops: Vec::new(), viol: None, special: None }
    }
    /// Apply one op; false once a violation has been recorded.
    pub fn go(&mut self, op: Op) -> bool {
        if self.viol.is_some() {
            return false;
        }
        let r = self.mon.step(&op);
        self.ops.push(op);
        if let Err(v) = r {
            self.viol = Some((v, self.ops.len()));
            return false;
        }
        true
    }
    pub fn ok(&self) -> bool {
        self.viol.is_none()
    }
    pub fn insert_new(&mut self, next: &mut u64) -> bool {
        *next += 1;
        self.go(add_op(*next, *next))
    }
    /// Insert fresh keys until the next new key must grow the table.
    pub fn fill_to_full(&mut self, next: &mut u64, limit: usize) -> bool {
        for _ in 0..limit {
            let st = self.mon.state();
            if st.old.is_none() && st.main.buckets > 1 && st.main.capacity == st.main.len {
                return true;
            }
            if !self.insert_new(next) {
                return false;
            }
        }
        false
    }
    pub fn keys_at(&self, old: bool) -> Vec<u64> {
        self.mon.model.keys().copied().filter(|k| matches!(self.mon.locate(*k), Location::Old(_)) == old).collect()
    }
    pub fn finish_with_transcript(mut self) -> HistOutcome {
        let t = self.mon.transcript.take();
        let mut o = self.finish();
        o.transcript = t;
        o
    }
    pub fn finish(mut self) -> HistOutcome {
        if self.viol.is_some() {
            let stats = std::mem::take(&mut self.mon.stats);
            std::mem::forget(self.mon);
            return HistOutcome { ops: self.ops, stats, viol: self.viol, transcript: None };
        }
        let n = self.ops.len();
        let stats = self.mon.stats.clone();
        match self.mon.finish() {
            Ok(s) => HistOutcome { ops: self.ops, stats: s, viol: None, transcript: None },
            Err(v) => HistOutcome { ops: self.ops, stats, viol: Some((v, n)), transcript: None },
        }
    }
}

fn cfg_of(elem: ElemKind, bh: Bh, cap: usize, check_every: u64, cursor_every: u64, focus: &'static str) -> Cfg {
    Cfg { elem, bh, cap, check_every, cursor_every, focus, ledger_only: false }
}

// ------------------------------------------------------------------------------------------
// growth ladders (C02 / C03)
// ------------------------------------------------------------------------------------------

fn ladder_one<K: El, V: El>(cfg: &Cfg, rng: &mut Rng, target: usize, churn: bool, bursts: bool) -> HistOutcome {
    let mut s: Sess<K, V> = Sess::new(cfg);
    let mut gen = Gen::new(rng.next(), Profile::Work, 1 << 30, 0, usize::MAX);
    let mut next = 0u64;
    while s.mon.model.len() < target && s.ok() {
        let k = mix(next) >> 16;
        next += 1;
        if !s.go(add_op(k, next)) {
            break;
        }
        let split = s.mon.state().old.is_some();
        if bursts && split && rng.chance(1, 3) {
            for _ in 0..(1 + rng.usize(6)) {
                let op = gen.random_op(&s.mon);
                if !s.go(op) {
                    break;
                }
            }
        }
        if churn && rng.chance(1, 6) {
            if let Some(k) = gen.existing_key(&s.mon) {
                s.go(Op::k(Code::Remove, k));
            }
        }
    }
    // let the last resize finish so that completion is observed too
    let mut extra = 0;
    while s.ok() && s.mon.state().old.is_some() && extra < 1 << 16 {
        extra += 1;
        let k = mix(next) >> 16;
        next += 1;
        s.go(add_op(k, next));
    }
    s.finish()
}

/// Exhaust the table's free budget with tombstones (few elements, `growth_left == 0`): the next
/// new key must still be inserted with bounded work (incremental growth, not an in-place rehash).
fn tombstone_one<K: El, V: El>(cfg: &Cfg, rng: &mut Rng, target: usize) -> HistOutcome {
    let mut s: Sess<K, V> = Sess::new(cfg);
    let mut next = 0u64;
    for _round in 0..3 {
        // sequential keys: with the identity hasher they form one contiguous run, so removals
        // leave tombstones instead of empty slots
        while s.ok() && s.mon.model.len() < target {
            next += 1;
            s.go(Op::kv(Code::Insert, next, next));
        }
        if !s.fill_to_full(&mut next, 1 << 18) {
            break;
        }
        let frac = *rng.pick(&[50u64, 65, 80, 95]);
        let keys: Vec<u64> = s.mon.model.keys().copied().collect();
        for k in keys {
            if mix(k) % 100 < frac {
                if !s.go(Op::k(Code::Remove, k)) {
                    break;
                }
            }
        }
        // capacity calls and the headroom probe on a main table full of tombstones
        let len = s.mon.map.len() as u64;
        let free = s.mon.map.capacity() as u64 - len;
        match rng.below(5) {
            0 => {
                s.go(Op::n(Code::Reserve, free + rng.below(3)));
            }
            1 => {
                s.go(Op::n(Code::TryReserve, free.saturating_sub(1) + rng.below(4)));
            }
            2 => {
                let mut l = Vec::new();
                for i in 0..(2 * free + 2) {
                    l.push((1u64 << 33) + next + i);
                    l.push(i);
                }
                s.go(Op::new(Code::Extend).with_list(l));
            }
            3 => {
                s.go(Op::new(Code::Probe));
            }
            _ => {}
        }
        for _ in 0..(target / 4 + 20) {
            next += 1;
            if !s.go(Op::kv(Code::Insert, next, next)) {
                break;
            }
        }
        if rng.chance(1, 2) {
            s.go(Op::new(Code::Probe));
        }
    }
    s.finish()
}

pub fn ladder(a: &Args, rep: &mut Report) {
    let sh = Shard::from_args(a);
    let focus = static_prop(&rep.prop);
    let target = a.u64("keys", 8192) as usize;
    let mut rng = sh.rng(0x1adde5);
    for h in 0..sh.n {
        let mut hr = rng.fork();
        let elem = *hr.pick(&[ElemKind::U64, ElemKind::TrInline, ElemKind::Big]);
        let mode = *hr.pick(&[HMode::Good, HMode::Good, HMode::Identity, HMode::SameTag]);
        let cap = *hr.pick(&[usize::MAX, 0, 3, 7, 28, 100, 1000]);
        let churn = hr.chance(1, 2);
        let bursts = hr.chance(2, 3);
        // ladders are long: compare full contents rarely, the per-call rules always
        let cfg = cfg_of(elem, Bh::new(mode, hr.below(4)), cap, 4099, 61, focus);
        let t = if cfg!(miri) { target.min(200) } else { target };
        let tomb = h % 3 == 2;
        let cfg = if tomb { cfg_of(elem, Bh::new(HMode::Identity, 0), cap, 4099, 61, focus) } else { cfg };
        let out = if tomb {
            let tt = *hr.pick(&[20usize, 50, 100, 400, 1500, 3000]).min(&t);
            rep.bump("tombstone_exhaustion_histories", 1);
            match elem {
                ElemKind::U64 => tombstone_one::<u64, u64>(&cfg, &mut hr, tt),
                ElemKind::Big => tombstone_one::<u64, Big>(&cfg, &mut hr, tt),
                _ => tombstone_one::<Tr<false>, Tr<false>>(&cfg, &mut hr, tt),
            }
        } else {
            match elem {
                ElemKind::U64 => ladder_one::<u64, u64>(&cfg, &mut hr, t, churn, bursts),
                ElemKind::Big => ladder_one::<u64, Big>(&cfg, &mut hr, t.min(30000), churn, bursts),
                _ => ladder_one::<Tr<false>, Tr<false>>(&cfg, &mut hr, t, churn, bursts),
            }
        };
        rep.max("largest_map", out.stats.max_len as u64);
        let tag = format!("ladder-{}-s{}-i{}-h{}", flavour(), sh.seed, sh.index, h);
        rep.record(&cfg, &tag, out, |s| s.growths >= 2 && s.resizes_completed >= 2);
    }
}

// ------------------------------------------------------------------------------------------
// boundary sweeps (C04 / C10)
// ------------------------------------------------------------------------------------------

fn boundary_args(len: usize, free: usize, r: usize, cap: usize) -> Vec<u64> {
    let c = (len + r - 1) / r;
    let mut v: Vec<usize> = vec![
        0,
        1,
        free.saturating_sub(1),
        free,
        free + 1,
        len,
        len + 1,
        len.saturating_sub(1),
        2 * len,
        c,
        c + 1,
        c.saturating_sub(1),
        len + c,
        len + c + 1,
        (len + c).saturating_sub(1),
        len / r,
        cap,
        cap + 1,
        cap.saturating_sub(1),
    ];
    v.sort_unstable();
    v.dedup();
    v.into_iter().map(|x| x as u64).collect()
}

/// One sweep case: build `len` elements (optionally through a forced split), then a capacity
/// call with a boundary argument, then the probe.
fn sweep_case<K: El, V: El>(cfg: &Cfg, len: usize, split_via: u64, carried: usize, tomb: usize, call: Code, argi: usize) -> Option<HistOutcome> {
    let mut s: Sess<K, V> = Sess::new(cfg);
    let mut next = 1000u64;
    for _ in 0..len {
        if !s.insert_new(&mut next) {
            return Some(s.finish());
        }
    }
    match split_via {
        // force a split with (almost) everything in the old table
        1 => {
            let free = s.mon.map.capacity() - s.mon.map.len();
            s.go(Op::n(Code::Reserve, free as u64 + 1));
        }
        2 => {
            s.go(Op::n(Code::Reserve, (len as u64) * 3 + 40));
        }
        // grow by filling
        3 => {
            s.fill_to_full(&mut next, 1 << 14);
            s.insert_new(&mut next);
        }
        _ => {}
    }
    for _ in 0..carried {
        if s.mon.state().old.is_none() {
            break;
        }
        s.insert_new(&mut next);
    }
    if tomb > 0 {
        let ks = s.keys_at(false);
        for k in ks.into_iter().take(tomb) {
            s.go(Op::k(Code::Remove, k));
        }
    }
    if !s.ok() {
        return Some(s.finish());
    }
    let st = s.mon.state();
    let l = s.mon.map.len();
    let cap = s.mon.map.capacity();
    let args = boundary_args(l, cap - l, st.r, cap);
    if argi >= args.len() {
        return None;
    }
    let arg = args[argi];
    match call {
        Code::ShrinkToFit => {
            if argi > 0 {
                return None;
            }
            s.go(Op::new(Code::ShrinkToFit));
        }
        c => {
            s.go(Op::n(c, arg));
        }
    }
    s.go(Op::new(Code::Probe));
    // and once more after the probe's growth headroom is used up
    if s.ok() && s.mon.map.len() < 6000 {
        s.insert_new(&mut next);
        s.go(Op::new(Code::Probe));
    }
    Some(s.finish())
}

pub fn sweep(a: &Args, rep: &mut Report) {
    let sh = Shard::from_args(a);
    let focus = static_prop(&rep.prop);
    let max_len = a.u64("maxlen", 300) as usize;
    let dense = a.u64("dense", 130) as usize;
    let mut rng = sh.rng(0x5eeb);
    // the lens explored: every len up to `dense`, then the neighbourhoods of the table
    // capacities (7/8 of a power of two) and of multiples of R, plus random ones
    let mut lens: Vec<usize> = (0..=dense.min(max_len)).collect();
    let mut b = 8usize;
    while b / 8 * 7 <= max_len {
        let c = b / 8 * 7;
        for d in 0..4 {
            lens.push(c + d);
            lens.push(c.saturating_sub(d));
        }
        b *= 2;
    }
    for _ in 0..(max_len / 8).max(8) {
        lens.push(rng.usize(max_len + 1));
    }
    lens.retain(|l| *l <= max_len);
    lens.sort_unstable();
    lens.dedup();
    let calls = [Code::ShrinkToFit, Code::ShrinkTo, Code::Reserve, Code::TryReserve];
    let mut case = 0u64;
    for &len in &lens {
        for split_via in 0..4u64 {
            for &call in &calls {
                for argi in 0..20usize {
                    case += 1;
                    if case % sh.count != sh.index {
                        continue;
                    }
                    let mut hr = Rng::new(sh.seed ^ mix(case));
                    // carried steps: none, one, all but one
                    let carried = match hr.below(3) {
                        0 => 0,
                        1 => 1,
                        _ => ((len + 7) / 8).saturating_sub(1),
                    };
                    let tomb = if hr.chance(1, 3) { 1 + hr.usize(5) } else { 0 };
                    let elem = *hr.pick(&[ElemKind::U64, ElemKind::U64, ElemKind::TrInline, ElemKind::Big]);
                    let mode = *hr.pick(&[HMode::Good, HMode::Good, HMode::Identity]);
                    let cfg = cfg_of(elem, Bh::new(mode, hr.below(3)), usize::MAX, 64, 16, focus);
                    let out = match elem {
                        ElemKind::U64 => sweep_case::<u64, u64>(&cfg, len, split_via, carried, tomb, call, argi),
                        ElemKind::Big => sweep_case::<u64, Big>(&cfg, len, split_via, carried, tomb, call, argi),
                        _ => sweep_case::<Tr<false>, Tr<false>>(&cfg, len, split_via, carried, tomb, call, argi),
                    };
                    let out = match out {
                        Some(o) => o,
                        None => continue,
                    };
                    let tag = format!("sweep-{}-s{}-c{}", flavour(), sh.seed, case);
                    rep.bump(&format!("sweep_cases_{}", call.name()), 1);
                    rep.record(&cfg, &tag, out, |s| s.hist_split && s.probes > 0);
                }
            }
        }
    }
    rep.notes.insert("sweep_lens".into(), format!("{} distinct lens up to {}, dense to {}", lens.len(), max_len, dense));
}

/// Probe at every prefix of short histories (thorough tier of C04).
pub fn prefix_probe(a: &Args, rep: &mut Report) {
    let sh = Shard::from_args(a);
    let focus = static_prop(&rep.prop);
    let mut rng = sh.rng(0x9f0be);
    for h in 0..sh.n {
        let mut hr = rng.fork();
        let mut p = crate::work::plan(&mut hr, Profile::Headroom, true);
        p.cfg.focus = focus;
        p.cfg.elem = ElemKind::U64;
        let mut gen = Gen::new(hr.next(), Profile::Headroom, p.keyspace, 20 + hr.usize(60), 200);
        let base = run_generated(&p.cfg, &mut gen, false, false);
        if base.viol.is_some() {
            let tag = format!("prefix-{}-s{}-i{}-h{}", flavour(), sh.seed, sh.index, h);
            rep.record(&p.cfg, &tag, base, |_| false);
            continue;
        }
        let ops = base.ops;
        for cut in 0..=ops.len() {
            let mut pre: Vec<Op> = ops[..cut].to_vec();
            pre.push(Op::new(Code::Probe));
            let r = run_ops(&p.cfg, &pre);
            rep.evaluations += 1;
            match r {
                Ok(st) => {
                    if st.hist_split {
                        rep.nontrivial.insert(history_digest(&pre));
                    }
                    rep.stats.merge(&st);
                }
                Err((v, _)) => {
                    let tag = format!("prefix-{}-s{}-i{}-h{}-c{}", flavour(), sh.seed, sh.index, h, cut);
                    rep.violation(&p.cfg, &tag, &pre, v);
                    break;
                }
            }
        }
        if rep.samples.is_empty() {
            let o: Vec<String> = ops.iter().take(30).map(|o| o.encode()).collect();
            rep.sample(format!("probe at every prefix of: {}", o.join("; ")));
        }
    }
}

// ------------------------------------------------------------------------------------------
// entry chains (C12): complete enumeration of chains x key location class x explored state
// ------------------------------------------------------------------------------------------

/// Build one of the explored states; returns false if the wanted state could not be reached.
pub fn chain_state_pub<K: El, V: El>(s: &mut Sess<K, V>, state: u64, size: usize, next: &mut u64) -> bool {
    chain_state(s, state, size, next)
}

/// Draw one of the directed states that need no particular hasher: 0..=6, 8, 9, 10.
pub fn draw_state(rng: &mut Rng) -> u64 {
    match rng.below(10) {
        7 => 8,
        8 => 9,
        9 => 10,
        x => x,
    }
}

fn chain_state<K: El, V: El>(s: &mut Sess<K, V>, state: u64, size: usize, next: &mut u64) -> bool {
    for _ in 0..size {
        if !s.insert_new(next) {
            return false;
        }
    }
    match state {
        // whatever phase `size` inserts leave
        0 => true,
        // full: the next new key triggers growth
        1 => s.fill_to_full(next, 4096),
        // just grown
        2 => s.fill_to_full(next, 4096) && s.insert_new(next),
        // partly moved
        3 => {
            if !(s.fill_to_full(next, 4096) && s.insert_new(next)) {
                return false;
            }
            let left = s.mon.state().old.map_or(0, |o| o.table.len);
            let r = s.mon.state().r;
            for _ in 0..(left / r / 2) {
                if !s.insert_new(next) {
                    return false;
                }
            }
            true
        }
        // old table partly emptied by removals
        4 => {
            if !(s.fill_to_full(next, 4096) && s.insert_new(next)) {
                return false;
            }
            let olds = s.keys_at(true);
            for k in olds.iter().step_by(3) {
                if !s.go(Op::k(Code::Remove, *k)) {
                    return false;
                }
            }
            true
        }
        // main table with tombstones, old table present
        5 => {
            if !(s.fill_to_full(next, 4096) && s.insert_new(next)) {
                return false;
            }
            let mains = s.keys_at(false);
            for k in mains.iter().take(4) {
                if !s.go(Op::k(Code::Remove, *k)) {
                    return false;
                }
            }
            true
        }
        // "probe gap": an exactly full single table (identity hasher) in which the special key
        // sits three slots past its home behind a collision chain, with an EMPTY slot inside
        // that chain and a dense run after it, so that removing the key leaves a tombstone while
        // an EMPTY slot comes earlier in its probe sequence
        7 => {
            let bh = s.mon.bh;
            let st = s.mon.state();
            if bh.mode != HMode::Identity || bh.seed & 0xff != 0 || st.main.buckets < 32 || st.main.len != 0 || st.old.is_some() {
                return false;
            }
            let b = st.main.buckets as u64;
            let h = (size as u64) % (b - 8);
            for i in 0..4 {
                if !s.go(Op::kv(Code::Insert, h + i * b, 100 + i)) {
                    return false;
                }
            }
            if !s.go(Op::k(Code::Remove, h + 2 * b)) {
                return false;
            }
            let mut j = h + 4;
            let mut guard = 0;
            loop {
                let st = s.mon.state();
                if st.old.is_some() || st.main.buckets as u64 != b {
                    return false;
                }
                if st.main.capacity == st.main.len {
                    break;
                }
                guard += 1;
                if guard > 2 * b {
                    return false;
                }
                let home = j % b;
                if !(h..h + 4).contains(&home) {
                    // a key whose home is this very slot, larger than anything in the chain
                    if !s.go(Op::kv(Code::Insert, home + 8 * b, home)) {
                        return false;
                    }
                }
                j += 1;
            }
            s.special = Some(h + 3 * b);
            *next = (*next).max(20 * b);
            true
        }
        // zero slack: a resize in flight whose main table was shrunk to fit, so that every free
        // slot is spoken for by an element waiting in the old table or by the insertions that
        // will move them
        8 => {
            if !(s.fill_to_full(next, 4096) && s.insert_new(next)) {
                return false;
            }
            // a few carried, a few removed from the main table again: different exact fits
            for _ in 0..(size % 3) {
                if !s.insert_new(next) {
                    return false;
                }
            }
            let mains = s.keys_at(false);
            for k in mains.iter().take(size % 4) {
                if !s.go(Op::k(Code::Remove, *k)) {
                    return false;
                }
            }
            s.go(Op::new(Code::ShrinkToFit)) && s.mon.state().old.is_some()
        }
        // the old table is the LARGER allocation: grow, remove most elements from both tables,
        // shrink the main table to fit
        9 => {
            if !(s.fill_to_full(next, 4096) && s.insert_new(next)) {
                return false;
            }
            let olds = s.keys_at(true);
            let mains = s.keys_at(false);
            let keep_old = 1 + size % 5;
            for k in olds.iter().skip(keep_old) {
                if !s.go(Op::k(Code::Remove, *k)) {
                    return false;
                }
            }
            for k in mains.iter().skip(size % 3) {
                if !s.go(Op::k(Code::Remove, *k)) {
                    return false;
                }
            }
            if !s.go(Op::new(Code::ShrinkToFit)) {
                return false;
            }
            let st = s.mon.state();
            st.old.map_or(false, |o| o.table.len > 0 && o.table.buckets > st.main.buckets)
        }
        // a single table in which most control bytes are tombstones (filled up, then most
        // elements removed again): no resize in flight, nothing is being relocated
        10 => {
            if !s.fill_to_full(next, 4096) {
                return false;
            }
            let keys = s.keys_at(false);
            let keep = 2 + size % 7;
            for k in keys.iter().skip(keep) {
                if !s.go(Op::k(Code::Remove, *k)) {
                    return false;
                }
            }
            s.mon.state().old.is_none()
        }
        // resize started by reserve: every element in the old table, the main table empty
        _ => {
            if s.mon.map.is_empty() {
                return false;
            }
            if s.mon.state().old.is_some() {
                // finish the pending resize first
                let mut guard = 0;
                while s.mon.state().old.is_some() && guard < 4096 {
                    guard += 1;
                    if !s.insert_new(next) {
                        return false;
                    }
                }
            }
            let free = (s.mon.map.capacity() - s.mon.map.len()) as u64;
            s.go(Op::n(Code::Reserve, free + 1)) && s.mon.state().old.is_some()
        }
    }
}

/// 0 absent, 1 main, 2 old in the cursor's group (the next element to move), 3 old beyond
fn key_of_class<K: El, V: El>(s: &Sess<K, V>, class: usize) -> Option<u64> {
    if class == 0 {
        return Some(999_999_999);
    }
    let mut best = None;
    for k in s.mon.model.keys() {
        let l = s.mon.locate(*k);
        if s.mon.loc_class(l) == class {
            if class == 2 {
                // prefer the very next element the cursor will yield
                if let (Location::Old(i), Some((cur, _))) = (l, s.mon.map.verif_cursor()) {
                    if cur.first() == Some(&i) {
                        return Some(*k);
                    }
                }
            }
            best = Some(*k);
            if class != 2 {
                break;
            }
        }
    }
    best
}

fn chain_case<K: El, V: El>(cfg: &Cfg, state: u64, size: usize, class: usize, op_template: &Op) -> Option<HistOutcome> {
    let mut s: Sess<K, V> = Sess::new(cfg);
    let mut next = 1000u64;
    if !chain_state(&mut s, state, size, &mut next) {
        return if s.ok() { None } else { Some(s.finish()) };
    }
    let k = match s.special {
        Some(k) => k,
        None => key_of_class(&s, class)?,
    };
    let mut op = op_template.clone();
    op.k = k;
    s.go(op);
    // the element the chain touched may be moved by the following inserts: look again
    s.go(Op::k(Code::Get, k));
    let r = s.mon.state().r;
    for _ in 0..=r {
        s.insert_new(&mut next);
    }
    s.go(Op::k(Code::GetKeyValue, k));
    s.go(Op::new(Code::FullCheck));
    Some(s.finish())
}

pub fn chains(a: &Args, rep: &mut Report) {
    let sh = Shard::from_args(a);
    let focus = static_prop(&rep.prop);
    let depth = a.u64("depth", 3) as usize;
    let sizes: Vec<usize> = if cfg!(miri) { vec![5, 17] } else { a.str("sizes", "0,5,20,40,70").split(',').filter_map(|x| x.parse().ok()).collect() };
    let entry_chains = enumerate_chains(false, depth, &[7, 11, 13]);
    let raw_chains = enumerate_chains(true, depth, &[7, 11, 13]);
    rep.extra.insert("entry_chains_enumerated".into(), entry_chains.len() as u64);
    rep.extra.insert("raw_entry_chains_enumerated".into(), raw_chains.len() as u64);
    let mut templates: Vec<Op> = Vec::new();
    for c in &entry_chains {
        templates.push(Op::new(Code::Entry).with_list(c.clone()));
    }
    for c in &raw_chains {
        for how in 0..3 {
            templates.push(Op::new(Code::RawEntryMut).with_n(how).with_list(c.clone()));
        }
    }
    let stride = a.u64("stride", 1).max(1);
    let mut case = 0u64;
    let mut classes_seen = [0u64; 4];
    for (ti, t) in templates.iter().enumerate() {
        for &size in &sizes {
            for state in 0..10u64 {
                for class in 0..4usize {
                    case += 1;
                    if case % sh.count != sh.index {
                        continue;
                    }
                    // thinning for the quick tier: keep every `stride`-th (state, size) cell per chain,
                    // rotating with the chain index so that all cells are covered across chains
                    if (case / sh.count + ti as u64) % stride != 0 {
                        continue;
                    }
                    let mut hr = Rng::new(sh.seed ^ mix(case));
                    let elem = *hr.pick(&[ElemKind::TrInline, ElemKind::TrHeap, ElemKind::U64]);
                    let mode = *hr.pick(&[HMode::Good, HMode::Identity, HMode::SameTag]);
                    let mut cfg = cfg_of(elem, Bh::new(mode, hr.below(3)), usize::MAX, 1, 1, focus);
                    if state == 7 {
                        // the probe-gap state needs the identity hasher and a pre-sized table; the
                        // key is the special one (class "main")
                        if class != 1 {
                            continue;
                        }
                        cfg = cfg_of(elem, Bh::new(HMode::Identity, 0), *hr.pick(&[28usize, 56]), 1, 1, focus);
                    }
                    let out = match elem {
                        ElemKind::U64 => chain_case::<u64, u64>(&cfg, state, size, class, t),
                        ElemKind::TrInline => chain_case::<Tr<false>, Tr<false>>(&cfg, state, size, class, t),
                        ElemKind::TrHeap => chain_case::<Tr<true>, Tr<true>>(&cfg, state, size, class, t),
                        ElemKind::Big => chain_case::<u64, Big>(&cfg, state, size, class, t),
                    };
                    let out = match out {
                        Some(o) => o,
                        None => continue,
                    };
                    classes_seen[class] += 1;
                    let tag = format!("chains-{}-s{}-c{}", flavour(), sh.seed, case);
                    rep.record(&cfg, &tag, out, |s| s.hist_split);
                }
            }
        }
    }
    for (i, n) in classes_seen.iter().enumerate() {
        rep.extra.insert(format!("chain_cases_key_{}", ["absent", "main", "old_cursor_group", "old_beyond"][i]), *n);
    }
    rep.notes.insert("exhaustive".into(), format!("all {} entry and {} raw-entry method chains up to depth {} (x3 raw lookup forms), stride {}", entry_chains.len(), raw_chains.len(), depth, stride));
}

// ------------------------------------------------------------------------------------------
// zero-sized elements: exhaustive enumeration of short histories
// ------------------------------------------------------------------------------------------

const ZOPS: usize = 21;

thread_local! {
    static ZD_LIVE: std::cell::Cell<i64> = const { std::cell::Cell::new(0) };
}
/// A zero-sized value *with* a destructor: `size_of == 0` is not `!needs_drop`.
pub struct Zd(());
impl Zd {
    fn new() -> Zd {
        ZD_LIVE.with(|c| c.set(c.get() + 1));
        Zd(())
    }
}
impl Clone for Zd {
    fn clone(&self) -> Zd {
        Zd::new()
    }
}
impl Drop for Zd {
    fn drop(&mut self) {
        ZD_LIVE.with(|c| c.set(c.get() - 1));
    }
}

/// The map operations of `zst_apply`, mirrored on a map whose (zero-sized) value has a
/// destructor; afterwards the number of live values must be the number the map holds.
fn zd_apply(zmap: &mut griddle::HashMap<(), Zd, Bh>, zp: &mut bool, op: usize) -> Result<(), String> {
    match op {
        0 => {
            zmap.insert((), Zd::new());
            *zp = true;
        }
        1 => {
            zmap.remove(&());
            *zp = false;
        }
        2 => {
            let _ = zmap.get(&());
        }
        3 => {
            zmap.entry(()).or_insert_with(Zd::new);
            *zp = true;
        }
        4 => zmap.reserve(10),
        5 => zmap.reserve(1000),
        6 => zmap.shrink_to_fit(),
        7 => {
            zmap.clear();
            *zp = false;
        }
        8 => {
            zmap.retain(|_, _| false);
            *zp = false;
        }
        9 => {
            let _ = zmap.drain().count();
            *zp = false;
        }
        10 => {
            let c = zmap.clone();
            *zmap = c;
        }
        16 => {
            let _ = zmap.try_reserve(37);
        }
        17 => {
            *zp = match zmap.entry(()) {
                griddle::hash_map::Entry::Occupied(o) => {
                    o.replace_entry_with(|_, _| None);
                    false
                }
                griddle::hash_map::Entry::Vacant(v) => {
                    v.insert(Zd::new());
                    true
                }
            };
        }
        18 => {
            let _ = zmap.try_reserve(5000);
        }
        20 => {
            *zmap = griddle::HashMap::with_capacity_and_hasher(10, Bh::default());
            *zp = false;
        }
        _ => {}
    }
    let live = ZD_LIVE.with(|c| c.get());
    if live != *zp as i64 || zmap.len() != *zp as usize {
        return Err(format!("C06: zero-sized values with a destructor: {live} live, the map holds {} (model: {})", zmap.len(), *zp as usize));
    }
    Ok(())
}

fn zst_apply(map: &mut griddle::HashMap<(), (), Bh>, set: &mut griddle::HashSet<(), Bh>, present: &mut (bool, bool), op: usize) -> Result<(), String> {
    let chk = |c: bool, what: &str| if c { Ok(()) } else { Err(format!("{what} disagrees with the model")) };
    match op {
        0 => {
            let r = map.insert((), ());
            chk(r.is_some() == present.0, "map insert")?;
            present.0 = true;
        }
        1 => {
            let r = map.remove(&());
            chk(r.is_some() == present.0, "map remove")?;
            present.0 = false;
        }
        2 => chk(map.get(&()).is_some() == present.0 && map.contains_key(&()) == present.0, "map get")?,
        3 => {
            map.entry(()).or_insert(());
            present.0 = true;
        }
        4 => map.reserve(10),
        5 => map.reserve(1000),
        6 => map.shrink_to_fit(),
        7 => {
            map.clear();
            present.0 = false;
        }
        8 => {
            map.retain(|_, _| false);
            present.0 = false;
        }
        9 => {
            let n = map.drain().count();
            chk(n == present.0 as usize, "map drain")?;
            present.0 = false;
        }
        10 => {
            let c = map.clone();
            chk(c == *map && c.len() == present.0 as usize, "map clone")?;
            *map = c;
        }
        11 => {
            let r = set.insert(());
            chk(r != present.1, "set insert")?;
            present.1 = true;
        }
        12 => {
            let r = set.remove(&());
            chk(r == present.1, "set remove")?;
            present.1 = false;
        }
        13 => set.reserve(10),
        14 => {
            let r = set.take(&());
            chk(r.is_some() == present.1, "set take")?;
            present.1 = false;
        }
        15 => {
            set.retain(|_| false);
            present.1 = false;
        }
        16 => {
            let r = map.try_reserve(37);
            chk(r.is_ok(), "map try_reserve")?;
            let r = set.try_reserve(37);
            chk(r.is_ok(), "set try_reserve")?;
        }
        18 => {
            // more than the spare room of any table built here: a table of zero-sized elements
            // must not be split by it either
            let r = map.try_reserve(5000);
            chk(r.is_ok(), "map try_reserve(5000)")?;
            let r = set.try_reserve(5000);
            chk(r.is_ok(), "set try_reserve(5000)")?;
            chk(map.capacity() >= map.len() + 5000 && set.capacity() >= set.len() + 5000, "capacity after try_reserve(5000)")?;
        }
        20 => {
            // with_capacity(n) gives capacity() >= n for zero-sized elements too
            *map = griddle::HashMap::with_capacity_and_hasher(10, Bh::default());
            *set = griddle::HashSet::with_capacity_and_hasher(10, Bh::default());
            *present = (false, false);
            if map.capacity() < 10 || set.capacity() < 10 {
                return Err(format!("C10: with_capacity(10) gave capacity {} (map) / {} (set)", map.capacity(), set.capacity()));
            }
        }
        19 => {
            // requests that overflow: Err from the fallible call, the documented panic from
            // the infallible one, contents untouched
            for n in [usize::MAX, usize::MAX - 1, isize::MAX as usize, isize::MAX as usize + 1] {
                let r = catch(|| map.try_reserve(n));
                match r {
                    Ok(Err(_)) => {}
                    Ok(Ok(())) => return Err(format!("C10: map.try_reserve({n}) returned Ok")),
                    Err(p) => return Err(format!("C10: map.try_reserve({n}) panicked: {p}")),
                }
                let r = catch(|| set.try_reserve(n));
                match r {
                    Ok(Err(_)) => {}
                    Ok(Ok(())) => return Err(format!("C10: set.try_reserve({n}) returned Ok")),
                    Err(p) => return Err(format!("C10: set.try_reserve({n}) panicked: {p}")),
                }
            }
            match catch(|| map.reserve(usize::MAX)) {
                Err(p) if p.contains("capacity overflow") => {}
                Err(p) => return Err(format!("C10: map.reserve(usize::MAX) panicked with an undocumented message: {p}")),
                Ok(()) => return Err("C10: map.reserve(usize::MAX) returned normally".into()),
            }
        }
        _ => {
            let r = match map.entry(()) {
                griddle::hash_map::Entry::Occupied(o) => {
                    o.replace_entry_with(|_, _| None);
                    false
                }
                griddle::hash_map::Entry::Vacant(v) => {
                    v.insert(());
                    true
                }
            };
            present.0 = r;
        }
    }
    chk(map.len() == present.0 as usize && map.iter().count() == present.0 as usize && map.capacity() >= map.len(), "map len/iter")?;
    chk(set.len() == present.1 as usize && set.iter().count() == present.1 as usize && set.contains(&()) == present.1, "set len/iter")?;
    let st = map.verif_state();
    if let Some(o) = st.old {
        if o.cursor_remaining != o.table.len {
            return Err("cached iterator count differs from the old table's length".into());
        }
    }
    Ok(())
}

pub fn zst(a: &Args, rep: &mut Report) {
    let sh = Shard::from_args(a);
    let depth = a.u64("depth", 4) as u32;
    let total = (ZOPS as u64).pow(depth);
    let names = [
        "map.insert", "map.remove", "map.get", "map.entry.or_insert", "map.reserve(10)", "map.reserve(1000)", "map.shrink_to_fit", "map.clear", "map.retain(false)", "map.drain", "map.clone",
        "set.insert", "set.remove", "set.reserve(10)", "set.take", "set.retain(false)", "map.try_reserve(37)+set.try_reserve(37)", "map.entry.replace_entry_with(None)/insert",
        "map.try_reserve(5000)+set.try_reserve(5000)", "try_reserve(overflowing) is Err, reserve(usize::MAX) panics", "with_capacity(10)",
    ];
    // C17: one transcript line per call (or one digest line per history), compared between builds
    let mut tfile = if a.has("transcript") { Some(std::fs::File::create(a.str("transcript", "t.txt")).expect("create transcript")) } else { None };
    let digest_only = a.u64("transcript-digest", 0) == 1;
    let lo = a.u64("skip", 0);
    let hi = a.map.get("n").and_then(|x| x.parse::<u64>().ok()).unwrap_or(total).min(total);
    for code in lo..hi {
        if code % sh.count != sh.index {
            continue;
        }
        let mut seq = Vec::new();
        let mut c = code;
        for _ in 0..depth {
            seq.push((c % ZOPS as u64) as usize);
            c /= ZOPS as u64;
        }
        heartbeat();
        let mut map: griddle::HashMap<(), (), Bh> = griddle::HashMap::with_hasher(Bh::default());
        let mut set: griddle::HashSet<(), Bh> = griddle::HashSet::with_hasher(Bh::default());
        let mut present = (false, false);
        ZD_LIVE.with(|c| c.set(0));
        let mut zmap: griddle::HashMap<(), Zd, Bh> = griddle::HashMap::with_hasher(Bh::default());
        let mut zpresent = false;
        rep.evaluations += 1;
        let mut nontrivial = false;
        let mut tlines: Vec<String> = Vec::new();
        if let Some(f) = &mut tfile {
            use std::io::Write as _;
            let _ = writeln!(f, "## history {code} zst {:?}", seq);
            let _ = f.flush();
        }
        for (i, &op) in seq.iter().enumerate() {
            let r = catch(|| zst_apply(&mut map, &mut set, &mut present, op).and_then(|()| zd_apply(&mut zmap, &mut zpresent, op)));
            let err = match r {
                Err(p) => Some(format!("undocumented panic: {p}")),
                Ok(Err(e)) => Some(e),
                Ok(Ok(())) => None,
            };
            if tfile.is_some() {
                tlines.push(format!("{} => {} len={}/{} cap={}/{} split={}", names[op], err.as_deref().unwrap_or("ok"), map.len(), set.len(), map.capacity(), set.capacity(), (present.0 || present.1) as u8));
            }
            if present.0 || present.1 {
                nontrivial = true;
            }
            if let Some(e) = err {
                let hist: Vec<&str> = seq[..=i].iter().map(|x| names[*x]).collect();
                let mut prop = if op >= 11 && op <= 15 { "C13" } else { "C01" };
                if e.starts_with("C10:") || (op == 18 && rep.prop == "C10") {
                    prop = "C10";
                }
                if e.starts_with("C06:") {
                    prop = "C06";
                }
                // a retain that cannot complete on a zero-sized map / set is C09's finding as well
                if (op == 8 || op == 15) && rep.prop == "C09" {
                    prop = "C09";
                }
                let tag = format!("zst-{}-{}", flavour(), code);
                // a panic on a zero-sized map violates C01 (maps), C13 (sets) and C05's element-type clause
                let msg = format!("zero-sized elements: {} after {:?}", e, hist);
                let hit = rep.direct_violation(prop, &tag, &msg, &[("kind", "zst".to_string()), ("history", format!("{hist:?}"))]);
                if !hit && (rep.prop == "C05" || rep.prop == "C01" || rep.prop == "C13") && e.contains("panic") {
                    let p = rep.prop.clone();
                    rep.direct_violation(static_prop(&p), &tag, &msg, &[("kind", "zst".to_string()), ("history", format!("{hist:?}"))]);
                }
                std::mem::forget(std::mem::replace(&mut zmap, griddle::HashMap::with_hasher(Bh::default())));
                std::mem::forget(std::mem::replace(&mut map, griddle::HashMap::with_hasher(Bh::default())));
                std::mem::forget(std::mem::replace(&mut set, griddle::HashSet::with_hasher(Bh::default())));
                break;
            }
        }
        if let Some(f) = &mut tfile {
            use std::io::Write as _;
            let mut t = String::new();
            if digest_only {
                t.push_str(&format!("d {:016x} split={}\n", digest(tlines.iter().flat_map(|l| l.bytes().map(|b| b as u64))), nontrivial as u8));
            } else {
                for l in &tlines {
                    t.push_str(l);
                    t.push('\n');
                }
            }
            t.push_str("## end ok\n");
            let _ = f.write_all(t.as_bytes());
            let _ = f.flush();
        }
        if nontrivial {
            rep.nontrivial.insert(code);
        }
        if rep.samples.len() < 2 && nontrivial {
            let hist: Vec<&str> = seq.iter().map(|x| names[*x]).collect();
            rep.sample(format!("zst history {:?}", hist));
        }
    }
    rep.notes.insert("zst".into(), format!("all {}^{} = {} histories of HashMap<(),()> / HashSet<()> operations (this shard: 1/{})", ZOPS, depth, total, sh.count));
}

// ------------------------------------------------------------------------------------------
// sentinels: the reproducers of the repaired defects stay in the checks forever
// ------------------------------------------------------------------------------------------

/// Does `$t` implement `$b`? (inherent associated consts shadow trait ones when the impl's
/// bound holds; evaluated by the compiler, observed here at run time)
macro_rules! implements {
    ($t:ty : $($b:tt)+) => {{
        trait DoesNot {
            const IMPLS: bool = false;
        }
        impl<T: ?Sized> DoesNot for T {}
        struct Probe<T: ?Sized>(std::marker::PhantomData<T>);
        #[allow(dead_code)]
        impl<T: ?Sized + $($b)+> Probe<T> {
            const IMPLS: bool = true;
        }
        <Probe<$t>>::IMPLS
    }};
}

/// Trait impls that would make undefined behaviour reachable from safe code, whatever the
/// implementation behind them: a cloneable handle that gives out `&mut` or owned elements, and
/// `Send` / `Sync` for element types that are not.
fn unsound_surface() -> Vec<&'static str> {
    use griddle::{hash_map as hm, hash_set as hs};
    use std::cell::Cell;
    use std::rc::Rc;
    type S = Bh;
    let mut bad = Vec::new();
    let mut chk = |b: bool, what: &'static str| {
        if b {
            bad.push(what);
        }
    };
    chk(implements!(hm::IterMut<'static, u64, u64>: Clone), "hash_map::IterMut is Clone (two iterators handing out &mut to the same values)");
    chk(implements!(hm::ValuesMut<'static, u64, u64>: Clone), "hash_map::ValuesMut is Clone");
    chk(implements!(hm::Drain<'static, u64, u64>: Clone), "hash_map::Drain is Clone (elements owned twice)");
    chk(implements!(hs::Drain<'static, u64>: Clone), "hash_set::Drain is Clone");
    chk(implements!(hm::OccupiedEntry<'static, u64, u64, S>: Clone), "hash_map::OccupiedEntry is Clone");
    chk(implements!(hm::VacantEntry<'static, u64, u64, S>: Clone), "hash_map::VacantEntry is Clone");
    chk(implements!(hm::RawOccupiedEntryMut<'static, u64, u64, S>: Clone), "hash_map::RawOccupiedEntryMut is Clone");
    chk(implements!(hm::RawVacantEntryMut<'static, u64, u64, S>: Clone), "hash_map::RawVacantEntryMut is Clone");
    // shared iterators behave like &(K, V): Send needs Sync elements
    chk(implements!(hm::Iter<'static, Cell<u64>, u64>: Send), "hash_map::Iter<Cell, _> is Send");
    chk(implements!(hm::Iter<'static, u64, Cell<u64>>: Send), "hash_map::Iter<_, Cell> is Send");
    chk(implements!(hm::Keys<'static, Cell<u64>, u64>: Send), "hash_map::Keys<Cell, _> is Send");
    chk(implements!(hm::Values<'static, u64, Cell<u64>>: Send), "hash_map::Values<_, Cell> is Send");
    chk(implements!(hs::Iter<'static, Cell<u64>>: Send), "hash_set::Iter<Cell> is Send");
    chk(implements!(hm::Iter<'static, Cell<u64>, u64>: Sync), "hash_map::Iter<Cell, _> is Sync");
    // owners and exclusive iterators: Send needs Send elements, Sync needs Sync elements
    chk(implements!(griddle::HashMap<Rc<u64>, u64, S>: Send), "HashMap<Rc, _> is Send");
    chk(implements!(griddle::HashMap<u64, Rc<u64>, S>: Send), "HashMap<_, Rc> is Send");
    chk(implements!(griddle::HashMap<u64, Cell<u64>, S>: Sync), "HashMap<_, Cell> is Sync");
    chk(implements!(griddle::HashSet<Rc<u64>, S>: Send), "HashSet<Rc> is Send");
    chk(implements!(griddle::HashSet<Cell<u64>, S>: Sync), "HashSet<Cell> is Sync");
    chk(implements!(hm::IterMut<'static, u64, Rc<u64>>: Send), "hash_map::IterMut<_, Rc> is Send");
    chk(implements!(hm::ValuesMut<'static, u64, Rc<u64>>: Send), "hash_map::ValuesMut<_, Rc> is Send");
    chk(implements!(hm::IntoIter<Rc<u64>, u64>: Send), "hash_map::IntoIter<Rc, _> is Send");
    chk(implements!(hm::Drain<'static, u64, Rc<u64>>: Send), "hash_map::Drain<_, Rc> is Send");
    chk(implements!(hs::IntoIter<Rc<u64>>: Send), "hash_set::IntoIter<Rc> is Send");
    chk(implements!(hs::Drain<'static, Rc<u64>>: Send), "hash_set::Drain<Rc> is Send");
    chk(implements!(hm::IterMut<'static, u64, Cell<u64>>: Sync), "hash_map::IterMut<_, Cell> is Sync");
    // and the positive side, so that the probe itself is known to work
    if !implements!(hm::Iter<'static, u64, u64>: Clone) || !implements!(griddle::HashMap<u64, u64, S>: Send) || implements!(Rc<u64>: Send) {
        bad.push("HARNESS: the trait probe does not work");
    }
    bad
}

pub fn sentinels(a: &Args, rep: &mut Report) {
    let focus = static_prop(&rep.prop);
    let _ = a;
    // the API surface (C05: no undefined behaviour through the safe API)
    {
        let bad = unsound_surface();
        rep.evaluations += 1;
        rep.bump("surface_probes", 27);
        for b in bad {
            let prop = if b.starts_with("HARNESS") { crate::mon::HARNESS } else { "C05" };
            rep.direct_violation(prop, "sentinel-surface", &format!("unsound trait implementation in the public API: {b}"), &[("kind", "surface".to_string())]);
        }
    }
    // D1: retain away everything, shrink_to_fit, insert
    {
        let cfg = cfg_of(ElemKind::U64, Bh::default(), usize::MAX, 1, 1, focus);
        let mut s: Sess<u64, u64> = Sess::new(&cfg);
        let mut next = 0;
        for _ in 0..15 {
            s.insert_new(&mut next);
        }
        s.go(Op::new(Code::Retain).with_list(pred_none()));
        s.go(Op::new(Code::ShrinkToFit));
        s.insert_new(&mut next);
        s.go(Op::new(Code::Probe));
        rep.record(&cfg, "sentinel-D1", s.finish(), |_| true);
        // variant: only the old table emptied
        let mut s: Sess<u64, u64> = Sess::new(&cfg);
        let mut next = 0;
        for _ in 0..15 {
            s.insert_new(&mut next);
        }
        let mains = s.keys_at(false);
        s.go(Op::new(Code::Retain).with_list(pred_keys(&mains)));
        s.go(Op::new(Code::ShrinkToFit));
        for _ in 0..3 {
            s.insert_new(&mut next);
        }
        s.go(Op::new(Code::Probe));
        rep.record(&cfg, "sentinel-D1b", s.finish(), |_| true);
    }
    // D3 / D4: replace_entry_with on old-table keys, Some / None, in and beyond the cursor group
    for none in [false, true] {
        for raw in [false, true] {
            if cfg!(miri) && raw != none {
                continue;
            }
            let cfg = cfg_of(ElemKind::TrHeap, Bh::new(HMode::Good, 1), usize::MAX, 1, 1, focus);
            let mut s: Sess<Tr<true>, Tr<true>> = Sess::new(&cfg);
            let mut next = 0;
            for _ in 0..30 {
                s.insert_new(&mut next);
            }
            let olds = s.keys_at(true);
            for k in olds.iter().rev().take(6) {
                let arg = if none { MAXN } else { 77 };
                if raw {
                    s.go(Op::k(Code::RawEntryMut, *k).with_list(vec![RE_AND_REPLACE, arg]));
                } else {
                    s.go(Op::k(Code::Entry, *k).with_list(vec![E_AND_REPLACE, arg]));
                }
            }
            for _ in 0..30 {
                s.insert_new(&mut next);
            }
            s.go(Op::new(Code::FullCheck));
            rep.record(&cfg, &format!("sentinel-D34-{none}-{raw}"), s.finish(), |_| true);
        }
    }
    // D5: overflowing reserve / try_reserve, unsplit and split
    for split in [false, true] {
        for d in [0u64, 1, 5, 9, 13] {
            if cfg!(miri) && (d != 5 || !split) {
                continue;
            }
            let cfg = cfg_of(ElemKind::U64, Bh::default(), usize::MAX, 1, 1, focus);
            let mut s: Sess<u64, u64> = Sess::new(&cfg);
            let mut next = 0;
            for _ in 0..(if split { 15 } else { 9 }) {
                s.insert_new(&mut next);
            }
            s.go(Op::n(Code::TryReserve, u64::MAX - d));
            s.go(Op::n(Code::Reserve, u64::MAX - d));
            s.go(Op::n(Code::TryReserve, (i64::MAX as u64) - d));
            s.insert_new(&mut next);
            s.go(Op::new(Code::Probe));
            rep.record(&cfg, &format!("sentinel-D5-{split}-{d}"), s.finish(), |_| true);
        }
    }
    // D2: zero-sized elements
    {
        let r = catch(|| {
            let mut set: griddle::HashSet<(), Bh> = griddle::HashSet::with_hasher(Bh::default());
            set.insert(());
            set.reserve(10);
            let a = set.remove(&());
            let mut map: griddle::HashMap<(), (), Bh> = griddle::HashMap::with_hasher(Bh::default());
            map.insert((), ());
            map.reserve(10);
            map.retain(|_, _| false);
            map.insert((), ());
            (a, map.len())
        });
        rep.evaluations += 1;
        match r {
            Ok((true, 1)) => {
                rep.nontrivial.insert(0xD2);
            }
            Ok(other) => {
                rep.direct_violation(if rep.prop == "C13" { "C13" } else { "C01" }, "sentinel-D2", &format!("zero-sized set/map history gave {other:?}"), &[]);
            }
            Err(p) => {
                let prop = static_prop(&rep.prop.clone());
                let prop = if matches!(prop, "C01" | "C13" | "C05") { prop } else { "C01" };
                rep.direct_violation(prop, "sentinel-D2", &format!("HashSet<()>: insert, reserve(10), remove panicked: {p}"), &[]);
            }
        }
    }
}
