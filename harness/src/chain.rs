//! Interpreters for entry / raw-entry method chains, with the model updated in lock step.

use crate::base::*;
use crate::mon::*;
use crate::ops::step::*;
use crate::ops::*;
use crate::viol;
use griddle::hash_map::{Entry, OccupiedEntry, RawEntryMut, RawOccupiedEntryMut, RawVacantEntryMut, VacantEntry};
use griddle::verif::Location;
use std::cell::Cell;

enum St<'a, K, V> {
    E(Entry<'a, K, V, Bh>),
    O(OccupiedEntry<'a, K, V, Bh>),
    Vc(VacantEntry<'a, K, V, Bh>),
    R(&'a mut V),
    Done,
}

enum RSt<'a, K, V> {
    E(RawEntryMut<'a, K, V, Bh>),
    O(RawOccupiedEntryMut<'a, K, V, Bh>),
    Vc(RawVacantEntryMut<'a, K, V, Bh>),
    KV(&'a mut K, &'a mut V),
    Done,
}

impl<K: El, V: El> Mon<K, V> {
    pub fn exec_entry(&mut self, op: &Op, _loc: Location, out: &mut Out) -> Res<()> {
        let k = op.k;
        let mut act: Obs = Vec::new();
        let mut exp: Obs = Vec::new();
        let mut effects: Vec<Eff> = Vec::new();
        let mut dropped: Vec<u64> = Vec::new();
        let h0 = hash_count();
        let a0 = table_allocs();
        {
            let map = &mut self.map;
            let model = &mut self.model;
            let key = K::mk(k);
            let ekey = key.id();
            // does the handle still own the key object passed to entry()?
            let mut ekey_held = true;
            // the key object a vacant handle would store
            let mut vkey = ekey;
            // an occupied handle produced by Entry::insert on a vacant entry has no spare key
            let mut okey_none = false;
            let mut st = St::E(map.entry(key));
            let mut steps = op.list.chunks(2);
            loop {
                let (code, arg) = match steps.next() {
                    Some(c) if c.len() == 2 => (c[0], c[1]),
                    _ => break,
                };
                let occupied = model.contains_key(&k);
                st = match (st, code) {
                    // ------------------------------------------------------------ Entry
                    (St::E(e), E_MATCH) => match e {
                        Entry::Occupied(o) => {
                            act.push(1);
                            exp.push(occupied as u64);
                            St::O(o)
                        }
                        Entry::Vacant(v) => {
                            act.push(0);
                            exp.push(occupied as u64);
                            St::Vc(v)
                        }
                    },
                    (St::E(e), E_KEY) => {
                        let kk = e.key();
                        act.extend([kk.val(), kk.id()]);
                        match model.get(&k) {
                            Some(s) => exp.extend([k, s.kid]),
                            None => exp.extend([k, vkey]),
                        }
                        St::E(e)
                    }
                    (St::E(e), E_OR_INSERT | E_OR_INSERT_WITH | E_OR_INSERT_WITH_KEY | E_OR_DEFAULT) => {
                        let made = Cell::new(0u64);
                        let r: &mut V = match code {
                            E_OR_INSERT => {
                                let v = V::mk(arg);
                                made.set(v.id());
                                e.or_insert(v)
                            }
                            E_OR_INSERT_WITH => e.or_insert_with(|| {
                                tick(Cb::Closure);
                                let v = V::mk(arg);
                                made.set(v.id());
                                v
                            }),
                            E_OR_INSERT_WITH_KEY => {
                                let seen = Cell::new((0u64, 0u64));
                                let r = e.or_insert_with_key(|kk| {
                                    tick(Cb::Closure);
                                    seen.set((kk.val(), kk.id()));
                                    let v = V::mk(arg);
                                    made.set(v.id());
                                    v
                                });
                                if !occupied {
                                    act.extend([seen.get().0, seen.get().1]);
                                    exp.extend([k, vkey]);
                                }
                                r
                            }
                            _ => e.or_default(),
                        };
                        act.extend([r.val(), r.id()]);
                        match model.get(&k) {
                            Some(s) => {
                                exp.extend([s.pay, s.vid]);
                                if code == E_OR_INSERT {
                                    dropped.push(made.get());
                                } else if made.get() != 0 {
                                    viol!("C12", "or_insert_with* ran its closure on an occupied entry");
                                }
                                if ekey_held {
                                    dropped.push(ekey);
                                }
                            }
                            None => {
                                let (pay, vid) = if code == E_OR_DEFAULT { (0, r.id()) } else { (arg, made.get()) };
                                exp.extend([pay, vid]);
                                model.insert(k, Slot { kid: vkey, vid, pay });
                                effects.push(Eff::AddNew);
                            }
                        }
                        ekey_held = false;
                        St::R(r)
                    }
                    (St::E(e), E_AND_MODIFY) => {
                        let called = Cell::new(false);
                        let e = e.and_modify(|v| {
                            tick(Cb::Closure);
                            called.set(true);
                            v.set_val(arg);
                        });
                        act.push(called.get() as u64);
                        exp.push(occupied as u64);
                        if let Some(s) = model.get_mut(&k) {
                            s.pay = arg;
                        }
                        St::E(e)
                    }
                    (St::E(e), E_AND_REPLACE) => {
                        let seen = Cell::new(None);
                        let made = Cell::new(0u64);
                        let e = e.and_replace_entry_with(|kk, v| {
                            tick(Cb::Closure);
                            seen.set(Some((kk.val(), kk.id(), v.val(), v.id())));
                            if arg == MAXN {
                                None
                            } else {
                                let nv = V::mk(arg);
                                made.set(nv.id());
                                Some(nv)
                            }
                        });
                        match seen.get() {
                            None => act.push(0),
                            Some((a, b, c, d)) => act.extend([1, a, b, c, d]),
                        }
                        match model.get(&k).copied() {
                            None => exp.push(0),
                            Some(s) => {
                                exp.extend([1, k, s.kid, s.pay, s.vid]);
                                dropped.push(s.vid);
                                if arg == MAXN {
                                    model.remove(&k);
                                    effects.push(Eff::ReplaceNone);
                                    if ekey_held {
                                        dropped.push(ekey);
                                        ekey_held = false;
                                    }
                                    vkey = s.kid;
                                } else {
                                    model.insert(k, Slot { kid: s.kid, vid: made.get(), pay: arg });
                                }
                            }
                        }
                        St::E(e)
                    }
                    (St::E(e), E_INSERT) => {
                        let v = V::mk(arg);
                        let vid = v.id();
                        let o = e.insert(v);
                        match model.get_mut(&k) {
                            Some(s) => {
                                dropped.push(s.vid);
                                s.vid = vid;
                                s.pay = arg;
                            }
                            None => {
                                model.insert(k, Slot { kid: vkey, vid, pay: arg });
                                effects.push(Eff::AddNew);
                                okey_none = true;
                                ekey_held = false;
                            }
                        }
                        St::O(o)
                    }
                    // ------------------------------------------------------------ Occupied
                    (St::O(o), O_KEY) => {
                        let kk = o.key();
                        act.extend([kk.val(), kk.id()]);
                        let s = model[&k];
                        exp.extend([k, s.kid]);
                        St::O(o)
                    }
                    (St::O(o), O_GET) => {
                        let v = o.get();
                        act.extend([v.val(), v.id()]);
                        let s = model[&k];
                        exp.extend([s.pay, s.vid]);
                        St::O(o)
                    }
                    (St::O(mut o), O_GET_MUT) => {
                        let v = o.get_mut();
                        act.extend([v.val(), v.id()]);
                        v.set_val(arg);
                        let s = model.get_mut(&k).unwrap();
                        exp.extend([s.pay, s.vid]);
                        s.pay = arg;
                        St::O(o)
                    }
                    (St::O(mut o), O_INSERT) => {
                        let v = V::mk(arg);
                        let vid = v.id();
                        let old = o.insert(v);
                        act.extend([old.val(), old.id()]);
                        let s = model.get_mut(&k).unwrap();
                        exp.extend([s.pay, s.vid]);
                        s.vid = vid;
                        s.pay = arg;
                        St::O(o)
                    }
                    (St::O(o), O_INTO_MUT) => {
                        let v = o.into_mut();
                        act.extend([v.val(), v.id()]);
                        v.set_val(arg);
                        let s = model.get_mut(&k).unwrap();
                        exp.extend([s.pay, s.vid]);
                        s.pay = arg;
                        if ekey_held {
                            dropped.push(ekey);
                            ekey_held = false;
                        }
                        St::Done
                    }
                    (St::O(o), O_REMOVE) => {
                        let v = o.remove();
                        act.extend([v.val(), v.id()]);
                        let s = model.remove(&k).unwrap();
                        exp.extend([s.pay, s.vid]);
                        dropped.push(s.kid);
                        effects.push(Eff::Remove);
                        if ekey_held {
                            dropped.push(ekey);
                            ekey_held = false;
                        }
                        St::Done
                    }
                    (St::O(o), O_REMOVE_ENTRY) => {
                        let (kk, v) = o.remove_entry();
                        act.extend([kk.val(), kk.id(), v.val(), v.id()]);
                        let s = model.remove(&k).unwrap();
                        exp.extend([k, s.kid, s.pay, s.vid]);
                        effects.push(Eff::Remove);
                        if ekey_held {
                            dropped.push(ekey);
                            ekey_held = false;
                        }
                        St::Done
                    }
                    (St::O(o), O_REPLACE_ENTRY) if !okey_none => {
                        let v = V::mk(arg);
                        let vid = v.id();
                        let (kk, ov) = o.replace_entry(v);
                        act.extend([kk.val(), kk.id(), ov.val(), ov.id()]);
                        let s = model.get_mut(&k).unwrap();
                        exp.extend([k, s.kid, s.pay, s.vid]);
                        *s = Slot { kid: ekey, vid, pay: arg };
                        ekey_held = false;
                        St::Done
                    }
                    (St::O(o), O_REPLACE_KEY) if !okey_none => {
                        let kk = o.replace_key();
                        act.extend([kk.val(), kk.id()]);
                        let s = model.get_mut(&k).unwrap();
                        exp.extend([k, s.kid]);
                        s.kid = ekey;
                        ekey_held = false;
                        St::Done
                    }
                    (St::O(o), O_REPLACE_WITH) => {
                        let seen = Cell::new((0, 0, 0, 0));
                        let made = Cell::new(0u64);
                        let e = o.replace_entry_with(|kk, v| {
                            tick(Cb::Closure);
                            seen.set((kk.val(), kk.id(), v.val(), v.id()));
                            if arg == MAXN {
                                None
                            } else {
                                let nv = V::mk(arg);
                                made.set(nv.id());
                                Some(nv)
                            }
                        });
                        let (a, b, c, d) = seen.get();
                        act.extend([a, b, c, d]);
                        let s = model[&k];
                        exp.extend([k, s.kid, s.pay, s.vid]);
                        dropped.push(s.vid);
                        if arg == MAXN {
                            model.remove(&k);
                            effects.push(Eff::ReplaceNone);
                            if ekey_held {
                                dropped.push(ekey);
                                ekey_held = false;
                            }
                            vkey = s.kid;
                            okey_none = false;
                        } else {
                            model.insert(k, Slot { kid: s.kid, vid: made.get(), pay: arg });
                        }
                        St::E(e)
                    }
                    // ------------------------------------------------------------ Vacant
                    (St::Vc(v), V_KEY) => {
                        let kk = v.key();
                        act.extend([kk.val(), kk.id()]);
                        exp.extend([k, vkey]);
                        St::Vc(v)
                    }
                    (St::Vc(v), V_INTO_KEY) => {
                        let kk = v.into_key();
                        act.extend([kk.val(), kk.id()]);
                        exp.extend([k, vkey]);
                        ekey_held = false;
                        vkey = 0;
                        St::Done
                    }
                    (St::Vc(v), V_INSERT) => {
                        let val = V::mk(arg);
                        let vid = val.id();
                        let r = v.insert(val);
                        act.extend([r.val(), r.id()]);
                        exp.extend([arg, vid]);
                        model.insert(k, Slot { kid: vkey, vid, pay: arg });
                        effects.push(Eff::AddNew);
                        ekey_held = false;
                        St::R(r)
                    }
                    // ------------------------------------------------------------ value reference
                    (St::R(r), R_WRITE) => {
                        act.extend([r.val(), r.id()]);
                        r.set_val(arg);
                        let s = model.get_mut(&k).unwrap();
                        exp.extend([s.pay, s.vid]);
                        s.pay = arg;
                        St::Done
                    }
                    // an occupied handle made by Entry::insert on a vacant entry carries no spare
                    // key: replace_key / replace_entry are documented to panic there (and do so
                    // before touching the map), in every build profile
                    (St::O(o), O_REPLACE_KEY | O_REPLACE_ENTRY) if okey_none => {
                        let v = V::mk(arg);
                        dropped.push(v.id());
                        let r = catch(move || {
                            if code == O_REPLACE_KEY {
                                drop(v);
                                let _ = o.replace_key();
                            } else {
                                let _ = o.replace_entry(v);
                            }
                        });
                        match r {
                            Err(p) => {
                                crate::exec::rethrow_fuse(&p);
                                if !p.contains("Option::unwrap()") {
                                    return Err(Viol { extra: Vec::new(), prop: "C12", more: &["C01"], msg: format!("replace_key / replace_entry on a handle made by Entry::insert panicked with an undocumented message: {p}") });
                                }
                                act.push(2);
                                exp.push(2);
                                self.stats.expected_panics += 1;
                            }
                            Ok(()) => {
                                return Err(Viol { extra: Vec::new(), prop: "C12", more: &["C01"], msg: "replace_key / replace_entry on a handle made by Entry::insert returned normally (documented to panic: the handle has no key to put in)".into() });
                            }
                        }
                        St::Done
                    }
                    // a step that does not apply to the current handle ends the chain
                    (s, _) => {
                        st = s;
                        break;
                    }
                };
            }
            // dropping whatever handle is left releases the key object it still owns
            match st {
                St::E(Entry::Vacant(_)) | St::Vc(_) => {
                    if vkey != 0 {
                        dropped.push(vkey);
                    }
                }
                St::E(Entry::Occupied(_)) | St::O(_) => {
                    if ekey_held {
                        dropped.push(ekey);
                    }
                }
                _ => {}
            }
            drop(st);
        }
        out.hashes += hash_count() - h0;
        out.tallocs += table_allocs() - a0;
        // later lookups see what was written through the handle
        let q = K::mk(k);
        match self.map.get(&q) {
            None => act.push(0),
            Some(v) => act.extend([1, v.val(), v.id()]),
        }
        match self.model.get(&k) {
            None => exp.push(0),
            Some(s) => exp.extend([1, s.pay, s.vid]),
        }
        drop(q);
        out.act = act;
        out.exp = exp;
        out.expect_dropped = dropped;
        out.kind = Kind::Keyed { base_hashes: 1, add_hashes: 0, effects };
        Ok(())
    }

    pub fn exec_raw_entry(&mut self, op: &Op, _loc: Location, out: &mut Out) -> Res<()> {
        let k = op.k;
        let mut act: Obs = Vec::new();
        let mut exp: Obs = Vec::new();
        let mut effects: Vec<Eff> = Vec::new();
        let mut dropped: Vec<u64> = Vec::new();
        let bh = self.bh;
        let hash = bh.hash_of(k);
        let q = K::mk(k);
        let base_hashes = if op.n == 0 { 1 } else { 0 };
        let mut add_hashes = 0u64;
        let h0 = hash_count();
        let a0 = table_allocs();
        {
            let map = &mut self.map;
            let model = &mut self.model;
            let e = match op.n {
                0 => map.raw_entry_mut().from_key(&q),
                1 => map.raw_entry_mut().from_key_hashed_nocheck(hash, &q),
                _ => map.raw_entry_mut().from_hash(hash, |kk| kk.val() == k),
            };
            let mut st = RSt::E(e);
            let mut steps = op.list.chunks(2);
            loop {
                let (code, arg) = match steps.next() {
                    Some(c) if c.len() == 2 => (c[0], c[1]),
                    _ => break,
                };
                let occupied = model.contains_key(&k);
                st = match (st, code) {
                    (RSt::E(e), RE_MATCH) => match e {
                        RawEntryMut::Occupied(o) => {
                            act.push(1);
                            exp.push(occupied as u64);
                            RSt::O(o)
                        }
                        RawEntryMut::Vacant(v) => {
                            act.push(0);
                            exp.push(occupied as u64);
                            RSt::Vc(v)
                        }
                    },
                    (RSt::E(e), RE_INSERT) => {
                        let (nk, nv) = (K::mk(k), V::mk(arg));
                        let (nkid, nvid) = (nk.id(), nv.id());
                        let o = e.insert(nk, nv);
                        match model.get_mut(&k) {
                            Some(s) => {
                                dropped.push(s.vid);
                                dropped.push(nkid);
                                s.vid = nvid;
                                s.pay = arg;
                            }
                            None => {
                                model.insert(k, Slot { kid: nkid, vid: nvid, pay: arg });
                                effects.push(Eff::AddNew);
                                add_hashes += 1;
                            }
                        }
                        RSt::O(o)
                    }
                    (RSt::E(e), RE_OR_INSERT | RE_OR_INSERT_WITH) => {
                        let made = Cell::new((0u64, 0u64));
                        let (rk, rv) = if code == RE_OR_INSERT {
                            let (nk, nv) = (K::mk(k), V::mk(arg));
                            made.set((nk.id(), nv.id()));
                            e.or_insert(nk, nv)
                        } else {
                            e.or_insert_with(|| {
                                tick(Cb::Closure);
                                let (nk, nv) = (K::mk(k), V::mk(arg));
                                made.set((nk.id(), nv.id()));
                                (nk, nv)
                            })
                        };
                        act.extend([rk.val(), rk.id(), rv.val(), rv.id()]);
                        match model.get(&k) {
                            Some(s) => {
                                exp.extend([k, s.kid, s.pay, s.vid]);
                                if code == RE_OR_INSERT {
                                    dropped.push(made.get().0);
                                    dropped.push(made.get().1);
                                } else if made.get().0 != 0 {
                                    viol!("C12", "raw or_insert_with ran its closure on an occupied entry");
                                }
                            }
                            None => {
                                exp.extend([k, made.get().0, arg, made.get().1]);
                                model.insert(k, Slot { kid: made.get().0, vid: made.get().1, pay: arg });
                                effects.push(Eff::AddNew);
                                add_hashes += 1;
                            }
                        }
                        RSt::KV(rk, rv)
                    }
                    (RSt::E(e), RE_AND_MODIFY) => {
                        let called = Cell::new(false);
                        let e = e.and_modify(|_kk, v| {
                            tick(Cb::Closure);
                            called.set(true);
                            v.set_val(arg);
                        });
                        act.push(called.get() as u64);
                        exp.push(occupied as u64);
                        if let Some(s) = model.get_mut(&k) {
                            s.pay = arg;
                        }
                        RSt::E(e)
                    }
                    (RSt::E(e), RE_AND_REPLACE) => {
                        let seen = Cell::new(None);
                        let made = Cell::new(0u64);
                        let e = e.and_replace_entry_with(|kk, v| {
                            tick(Cb::Closure);
                            seen.set(Some((kk.val(), kk.id(), v.val(), v.id())));
                            if arg == MAXN {
                                None
                            } else {
                                let nv = V::mk(arg);
                                made.set(nv.id());
                                Some(nv)
                            }
                        });
                        match seen.get() {
                            None => act.push(0),
                            Some((a, b, c, d)) => act.extend([1, a, b, c, d]),
                        }
                        match model.get(&k).copied() {
                            None => exp.push(0),
                            Some(s) => {
                                exp.extend([1, k, s.kid, s.pay, s.vid]);
                                dropped.push(s.vid);
                                if arg == MAXN {
                                    model.remove(&k);
                                    dropped.push(s.kid);
                                    effects.push(Eff::ReplaceNone);
                                } else {
                                    model.insert(k, Slot { kid: s.kid, vid: made.get(), pay: arg });
                                }
                            }
                        }
                        RSt::E(e)
                    }
                    // ------------------------------------------------------------ occupied
                    (RSt::O(o), RO_KEY) => {
                        let kk = o.key();
                        act.extend([kk.val(), kk.id()]);
                        exp.extend([k, model[&k].kid]);
                        RSt::O(o)
                    }
                    (RSt::O(mut o), RO_KEY_MUT) => {
                        let kk = o.key_mut();
                        act.extend([kk.val(), kk.id()]);
                        exp.extend([k, model[&k].kid]);
                        RSt::O(o)
                    }
                    (RSt::O(o), RO_INTO_KEY) => {
                        let kk = o.into_key();
                        act.extend([kk.val(), kk.id()]);
                        exp.extend([k, model[&k].kid]);
                        RSt::Done
                    }
                    (RSt::O(o), RO_GET) => {
                        let v = o.get();
                        act.extend([v.val(), v.id()]);
                        let s = model[&k];
                        exp.extend([s.pay, s.vid]);
                        RSt::O(o)
                    }
                    (RSt::O(mut o), RO_GET_MUT) => {
                        let v = o.get_mut();
                        act.extend([v.val(), v.id()]);
                        v.set_val(arg);
                        let s = model.get_mut(&k).unwrap();
                        exp.extend([s.pay, s.vid]);
                        s.pay = arg;
                        RSt::O(o)
                    }
                    (RSt::O(o), RO_INTO_MUT) => {
                        let v = o.into_mut();
                        act.extend([v.val(), v.id()]);
                        v.set_val(arg);
                        let s = model.get_mut(&k).unwrap();
                        exp.extend([s.pay, s.vid]);
                        s.pay = arg;
                        RSt::Done
                    }
                    (RSt::O(mut o), RO_GET_KEY_VALUE) => {
                        let (kk, v) = o.get_key_value();
                        act.extend([kk.val(), kk.id(), v.val(), v.id()]);
                        let s = model[&k];
                        exp.extend([k, s.kid, s.pay, s.vid]);
                        RSt::O(o)
                    }
                    (RSt::O(mut o), RO_GET_KEY_VALUE_MUT) => {
                        let (kk, v) = o.get_key_value_mut();
                        act.extend([kk.val(), kk.id(), v.val(), v.id()]);
                        v.set_val(arg);
                        let s = model.get_mut(&k).unwrap();
                        exp.extend([k, s.kid, s.pay, s.vid]);
                        s.pay = arg;
                        RSt::O(o)
                    }
                    (RSt::O(o), RO_INTO_KEY_VALUE) => {
                        let (kk, v) = o.into_key_value();
                        act.extend([kk.val(), kk.id(), v.val(), v.id()]);
                        v.set_val(arg);
                        let s = model.get_mut(&k).unwrap();
                        exp.extend([k, s.kid, s.pay, s.vid]);
                        s.pay = arg;
                        RSt::Done
                    }
                    (RSt::O(mut o), RO_INSERT) => {
                        let nv = V::mk(arg);
                        let nvid = nv.id();
                        let old = o.insert(nv);
                        act.extend([old.val(), old.id()]);
                        let s = model.get_mut(&k).unwrap();
                        exp.extend([s.pay, s.vid]);
                        s.vid = nvid;
                        s.pay = arg;
                        RSt::O(o)
                    }
                    (RSt::O(mut o), RO_INSERT_KEY) => {
                        let nk = K::mk(k);
                        let nkid = nk.id();
                        let old = o.insert_key(nk);
                        act.extend([old.val(), old.id()]);
                        let s = model.get_mut(&k).unwrap();
                        exp.extend([k, s.kid]);
                        s.kid = nkid;
                        RSt::O(o)
                    }
                    (RSt::O(o), RO_REMOVE) => {
                        let v = o.remove();
                        act.extend([v.val(), v.id()]);
                        let s = model.remove(&k).unwrap();
                        exp.extend([s.pay, s.vid]);
                        dropped.push(s.kid);
                        effects.push(Eff::Remove);
                        RSt::Done
                    }
                    (RSt::O(o), RO_REMOVE_ENTRY) => {
                        let (kk, v) = o.remove_entry();
                        act.extend([kk.val(), kk.id(), v.val(), v.id()]);
                        let s = model.remove(&k).unwrap();
                        exp.extend([k, s.kid, s.pay, s.vid]);
                        effects.push(Eff::Remove);
                        RSt::Done
                    }
                    (RSt::O(o), RO_REPLACE_WITH) => {
                        let seen = Cell::new((0, 0, 0, 0));
                        let made = Cell::new(0u64);
                        let e = o.replace_entry_with(|kk, v| {
                            tick(Cb::Closure);
                            seen.set((kk.val(), kk.id(), v.val(), v.id()));
                            if arg == MAXN {
                                None
                            } else {
                                let nv = V::mk(arg);
                                made.set(nv.id());
                                Some(nv)
                            }
                        });
                        let (a, b, c, d) = seen.get();
                        act.extend([a, b, c, d]);
                        let s = model[&k];
                        exp.extend([k, s.kid, s.pay, s.vid]);
                        dropped.push(s.vid);
                        if arg == MAXN {
                            model.remove(&k);
                            dropped.push(s.kid);
                            effects.push(Eff::ReplaceNone);
                        } else {
                            model.insert(k, Slot { kid: s.kid, vid: made.get(), pay: arg });
                        }
                        RSt::E(e)
                    }
                    // ------------------------------------------------------------ vacant
                    (RSt::Vc(v), RV_INSERT | RV_INSERT_HASHED | RV_INSERT_WITH_HASHER) => {
                        let (nk, nv) = (K::mk(k), V::mk(arg));
                        let (nkid, nvid) = (nk.id(), nv.id());
                        let (rk, rv) = match code {
                            RV_INSERT => {
                                add_hashes += 1;
                                v.insert(nk, nv)
                            }
                            RV_INSERT_HASHED => v.insert_hashed_nocheck(hash, nk, nv),
                            _ => v.insert_with_hasher(hash, nk, nv, |kk| bh.hash_of(kk.val())),
                        };
                        act.extend([rk.val(), rk.id(), rv.val(), rv.id()]);
                        exp.extend([k, nkid, arg, nvid]);
                        model.insert(k, Slot { kid: nkid, vid: nvid, pay: arg });
                        effects.push(Eff::AddNew);
                        RSt::KV(rk, rv)
                    }
                    (RSt::KV(rk, rv), RKV_WRITE) => {
                        act.extend([rk.val(), rk.id(), rv.val(), rv.id()]);
                        rv.set_val(arg);
                        let s = model.get_mut(&k).unwrap();
                        exp.extend([k, s.kid, s.pay, s.vid]);
                        s.pay = arg;
                        RSt::Done
                    }
                    (s, _) => {
                        st = s;
                        break;
                    }
                };
            }
            drop(st);
        }
        out.hashes += hash_count() - h0;
        out.tallocs += table_allocs() - a0;
        match self.map.get(&q) {
            None => act.push(0),
            Some(v) => act.extend([1, v.val(), v.id()]),
        }
        match self.model.get(&k) {
            None => exp.push(0),
            Some(s) => exp.extend([1, s.pay, s.vid]),
        }
        drop(q);
        out.act = act;
        out.exp = exp;
        out.expect_dropped = dropped;
        out.kind = Kind::Keyed { base_hashes, add_hashes, effects };
        Ok(())
    }
}

/// All valid step sequences up to `depth` for the entry API (complete enumeration for C12).
pub fn enumerate_chains(raw: bool, depth: usize, vals: &[u64]) -> Vec<Vec<u64>> {
    // handle kinds: 0 entry, 1 occupied, 2 vacant, 3 reference, 4 done
    fn next_kind(raw: bool, code: u64) -> &'static [usize] {
        // possible successor kinds (depends on occupancy at run time, so over-approximate)
        if !raw {
            match code {
                E_MATCH => &[1, 2],
                E_KEY | E_AND_MODIFY | E_AND_REPLACE | O_REPLACE_WITH => &[0],
                E_OR_INSERT | E_OR_INSERT_WITH | E_OR_INSERT_WITH_KEY | E_OR_DEFAULT | V_INSERT => &[3],
                E_INSERT | O_KEY | O_GET | O_GET_MUT | O_INSERT => &[1],
                V_KEY => &[2],
                _ => &[4],
            }
        } else {
            match code {
                RE_MATCH => &[1, 2],
                RE_AND_MODIFY | RE_AND_REPLACE | RO_REPLACE_WITH => &[0],
                RE_OR_INSERT | RE_OR_INSERT_WITH | RV_INSERT | RV_INSERT_HASHED | RV_INSERT_WITH_HASHER => &[3],
                RE_INSERT | RO_KEY | RO_KEY_MUT | RO_GET | RO_GET_MUT | RO_GET_KEY_VALUE | RO_GET_KEY_VALUE_MUT | RO_INSERT | RO_INSERT_KEY => &[1],
                _ => &[4],
            }
        }
    }
    fn steps_for(raw: bool, kind: usize) -> &'static [(u64, bool)] {
        match (raw, kind) {
            (false, 0) => ENTRY_STEPS,
            (false, 1) => OCC_STEPS,
            (false, 2) => VAC_STEPS,
            (false, 3) => REF_STEPS,
            (true, 0) => RAW_ENTRY_STEPS,
            (true, 1) => RAW_OCC_STEPS,
            (true, 2) => RAW_VAC_STEPS,
            (true, 3) => RAW_KV_STEPS,
            _ => &[],
        }
    }
    fn rec(raw: bool, kinds: &[usize], depth: usize, vals: &[u64], cur: &mut Vec<u64>, out: &mut std::collections::BTreeSet<Vec<u64>>) {
        if !cur.is_empty() {
            out.insert(cur.clone());
        }
        if depth == 0 {
            return;
        }
        for &kind in kinds {
            for &(code, takes) in steps_for(raw, kind) {
                let args: Vec<u64> = if takes {
                    if matches!(code, E_AND_REPLACE | O_REPLACE_WITH | RE_AND_REPLACE | RO_REPLACE_WITH) {
                        vec![vals[cur.len() / 2 % vals.len()], MAXN]
                    } else {
                        vec![vals[cur.len() / 2 % vals.len()]]
                    }
                } else {
                    vec![0]
                };
                for a in args {
                    cur.push(code);
                    cur.push(a);
                    rec(raw, next_kind(raw, code), depth - 1, vals, cur, out);
                    cur.pop();
                    cur.pop();
                }
            }
        }
    }
    let mut out = std::collections::BTreeSet::new();
    rec(raw, &[0], depth, vals, &mut Vec::new(), &mut out);
    out.into_iter().collect()
}
