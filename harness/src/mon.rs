//! The map monitor: applies concrete ops to a griddle::HashMap and to a BTreeMap model,
//! compares every observation, and checks the resize-state, work, headroom, cursor and
//! ledger invariants after every call. Each failed check is attributed to one property.

use crate::base::*;
use crate::ops::*;
use griddle::verif::{Location, State};
use griddle::HashMap;
use std::collections::BTreeMap;

#[derive(Debug, Clone)]
pub struct Viol {
    /// the property this violation is primarily attributed to
    pub prop: &'static str,
    /// further properties whose statement covers the same observation
    pub more: &'static [&'static str],
    /// properties whose own rule was found violated at the same moment
    pub extra: Vec<&'static str>,
    pub msg: String,
}

impl Viol {
    pub fn hits(&self, prop: &str) -> bool {
        self.prop == prop || self.more.contains(&prop) || self.extra.contains(&prop)
    }
}
pub type Res<T> = Result<T, Viol>;

#[macro_export]
macro_rules! viol {
    ($p:expr, $($a:tt)*) => { return Err($crate::mon::Viol { extra: Vec::new(), prop: $p, more: &[], msg: format!($($a)*) }) };
}

/// Violation attributed to the op's class property and the further properties covering it.
#[macro_export]
macro_rules! viol_op {
    ($code:expr, $($a:tt)*) => { return Err($crate::mon::Viol { extra: Vec::new(), prop: $crate::mon::class_prop($code), more: $crate::mon::contents_more($code), msg: format!($($a)*) }) };
}

/// A rule that does not affect the map/model agreement: fatal for the history only when it is
/// the property under check (or no focus is set); otherwise recorded and the history goes on.
macro_rules! soft {
    ($s:expr, $p:expr, $($a:tt)*) => { if let Some(v) = $s.soft($p, format!($($a)*)) { return Err(v); } };
}

pub const HARNESS: &str = "HARNESS";
/// not a finding: the history could not be continued meaningfully
pub const ABANDON: &str = "ABANDON";

/// Transcripts as per-line digests instead of full text (set from the command line).
pub static TRANSCRIPT_DIGEST: std::sync::atomic::AtomicBool = std::sync::atomic::AtomicBool::new(false);

#[derive(Clone, Copy, Debug, PartialEq, Eq)]
pub struct Slot {
    pub kid: u64,
    pub vid: u64,
    pub pay: u64,
}

pub type Obs = Vec<u64>;

/// One structural effect of a call on the key it targets.
#[derive(Clone, Copy, Debug, PartialEq, Eq)]
pub enum Eff {
    /// inserts the (absent) key; `own` = hash computations of the key itself by that step
    AddNew,
    /// `HashMap::insert` on a key that is in the old table (overwrites in place, then carries)
    OverwriteOld,
    /// removal through `remove`-style paths (frees an emptied old table)
    Remove,
    /// removal through replace_entry_with(None) (may leave an empty old table behind)
    ReplaceNone,
}

#[derive(Clone, Debug)]
pub enum Kind {
    /// lookups and in-place updates: state must not change at all; exact hash count
    Read { hashes: u64 },
    /// calls with structural effects on one key, in order
    Keyed { base_hashes: u64, add_hashes: u64, effects: Vec<Eff> },
    /// retain / drain_filter / extend: weak progress bounds
    Bulk { new_keys: usize, hashes_max: Option<u64>, may_alloc: bool },
    /// clear / drain / into_iter / replacement of the map: the old table must be gone
    Reset,
    /// reserve / shrink / clone: exempt from the per-call work bound
    Capacity,
    /// pure traversals: state unchanged, no hashing
    Traverse,
    Other,
}

pub struct Out {
    pub act: Obs,
    pub exp: Obs,
    pub hashes: u64,
    pub tallocs: u64,
    pub kind: Kind,
    pub expect_dropped: Vec<u64>,
}

impl Out {
    pub fn new() -> Out {
        Out { act: Vec::new(), exp: Vec::new(), hashes: 0, tallocs: 0, kind: Kind::Other, expect_dropped: Vec::new() }
    }
}

/// Measure hash computations and table allocations of an expression.
#[macro_export]
macro_rules! m {
    ($out:expr, $e:expr) => {{
        let __h = $crate::base::hash_count();
        let __a = $crate::base::table_allocs();
        let __r = $e;
        $out.hashes += $crate::base::hash_count() - __h;
        $out.tallocs += $crate::base::table_allocs() - __a;
        __r
    }};
}

// ---- phase / location classes (coverage accounting only, never an oracle) -------------------

pub const PHASES: [&str; 9] = ["P0", "P1", "P1f", "P1t", "P2", "P3", "P3r", "P4", "P5"];

pub fn group_width() -> usize {
    if cfg!(miri) {
        8
    } else {
        16
    }
}

#[derive(Default, Clone)]
pub struct Stats {
    pub calls: u64,
    pub by_code: BTreeMap<&'static str, u64>,
    /// checked calls per (phase class, op code)
    pub phase_code: BTreeMap<(usize, &'static str), u64>,
    pub phase: [u64; 9],
    /// [absent, main, old-in-cursor-group, old-beyond]
    pub loc: [u64; 4],
    pub growths: u64,
    pub resizes_completed: u64,
    pub max_len: usize,
    pub max_old_buckets: usize,
    pub cursor_checks: u64,
    pub cursor_checks_multi_group: u64,
    pub full_checks: u64,
    pub probes: u64,
    pub probe_keys: u64,
    pub probe_slack: [u64; 4],
    pub removed_from_old: u64,
    pub p4_seen: u64,
    pub key_adding: u64,
    pub max_hashes_add: u64,
    pub max_moved: u64,
    pub expected_panics: u64,
    pub alloc_fail_injected: u64,
    pub overflow_args: u64,
    pub hist_old_hit: bool,
    pub hist_split: bool,
    /// rule violations of properties other than the one under check
    pub also: BTreeMap<&'static str, (u64, String)>,
}

impl Stats {
    pub fn merge(&mut self, o: &Stats) {
        self.calls += o.calls;
        for (k, v) in &o.by_code {
            *self.by_code.entry(k).or_default() += v;
        }
        for (k, v) in &o.phase_code {
            *self.phase_code.entry(*k).or_default() += v;
        }
        for i in 0..9 {
            self.phase[i] += o.phase[i];
        }
        for i in 0..4 {
            self.loc[i] += o.loc[i];
            self.probe_slack[i] += o.probe_slack[i];
        }
        self.growths += o.growths;
        self.resizes_completed += o.resizes_completed;
        self.max_len = self.max_len.max(o.max_len);
        self.max_old_buckets = self.max_old_buckets.max(o.max_old_buckets);
        self.cursor_checks += o.cursor_checks;
        self.cursor_checks_multi_group += o.cursor_checks_multi_group;
        self.full_checks += o.full_checks;
        self.probes += o.probes;
        self.probe_keys += o.probe_keys;
        self.removed_from_old += o.removed_from_old;
        self.p4_seen += o.p4_seen;
        self.key_adding += o.key_adding;
        self.max_hashes_add = self.max_hashes_add.max(o.max_hashes_add);
        self.max_moved = self.max_moved.max(o.max_moved);
        self.expected_panics += o.expected_panics;
        self.alloc_fail_injected += o.alloc_fail_injected;
        self.overflow_args += o.overflow_args;
        for (k, (n, m)) in &o.also {
            let e = self.also.entry(k).or_insert((0, String::new()));
            e.0 += n;
            if e.1.is_empty() {
                e.1 = m.clone();
            }
        }
    }
}

pub fn phase_of(st: &State, removed_from_old: bool) -> usize {
    match &st.old {
        None => {
            if st.main.buckets <= 1 {
                0
            } else if st.main.capacity == st.main.len {
                2
            } else if st.main.capacity < bucket_capacity(st.main.buckets) {
                3
            } else {
                1
            }
        }
        Some(o) => {
            if o.table.len == 0 {
                7
            } else if removed_from_old {
                6
            } else if st.main.capacity < bucket_capacity(st.main.buckets) {
                8
            } else if o.table.len + st.r >= o.table.capacity {
                4
            } else {
                5
            }
        }
    }
}

/// hashbrown's capacity for a given number of buckets.
pub fn bucket_capacity(buckets: usize) -> usize {
    if buckets < 8 {
        buckets.saturating_sub(1)
    } else {
        buckets / 8 * 7
    }
}

pub fn is_zst<K, V>() -> bool {
    std::mem::size_of::<(K, V)>() == 0
}

pub struct Mon<K: El, V: El> {
    pub map: HashMap<K, V, Bh>,
    pub model: BTreeMap<u64, Slot>,
    pub bh: Bh,
    /// full contents comparison every n calls
    pub check_every: u64,
    /// cursor hook comparison every n calls (while split)
    pub cursor_every: u64,
    /// ledger conservation (live objects == 2 * len) after every call
    pub conserve: bool,
    pub live_base: usize,
    pub tables_base: i64,
    pub alloc_checks: bool,
    pub work_checks: bool,
    pub nops: u64,
    pub fresh: u64,
    pub stats: Stats,
    pub transcript: Option<Vec<String>>,
    /// (elements left behind by the growth, key-adding calls since)
    pub since_growth: Option<(usize, u64)>,
    pub expected_r: usize,
    /// the property under check ("" = every rule is fatal)
    pub focus: &'static str,
    /// an element was removed from the current old table by something other than carrying
    pub old_removed: bool,
    /// judge object lifetimes only (see `step_ledger_only`)
    pub ledger_only: bool,
    /// the destination of a clone_from in progress: if the call is interrupted by a panic it is
    /// still here afterwards and can be examined (C07)
    pub limbo: Option<HashMap<K, V, Bh>>,
    /// number of new keys the immediately preceding capacity call (reserve / successful
    /// try_reserve) promised to take without reallocation; consumed by the probe (C10)
    pub promised: usize,
}

pub fn expected_r() -> usize {
    if cfg!(miri) {
        4
    } else {
        8
    }
}

impl<K: El, V: El> Mon<K, V> {
    pub fn new(cap: usize, bh: Bh) -> Self {
        let live_base = ledger_live();
        let tables_base = table_live();
        let map = if cap == usize::MAX { HashMap::with_hasher(bh) } else { HashMap::with_capacity_and_hasher(cap, bh) };
        let tables_base = if map.verif_state().main.buckets > 1 && alloc_oracles_available() {
            table_live() - 1
        } else {
            tables_base
        };
        Mon {
            map,
            model: BTreeMap::new(),
            bh,
            check_every: 1,
            cursor_every: 1,
            conserve: K::TRACKED && V::TRACKED,
            live_base,
            tables_base,
            alloc_checks: alloc_oracles_available(),
            work_checks: true,
            nops: 0,
            fresh: 0,
            stats: Stats::default(),
            transcript: None,
            promised: 0,
            limbo: None,
            since_growth: None,
            expected_r: expected_r(),
            focus: "",
            old_removed: false,
            ledger_only: false,
        }
    }

    pub fn soft(&mut self, prop: &'static str, msg: String) -> Option<Viol> {
        if self.focus.is_empty() || self.focus == prop {
            return Some(Viol { extra: Vec::new(), prop, more: &[], msg });
        }
        let e = self.stats.also.entry(prop).or_insert((0, String::new()));
        e.0 += 1;
        if e.1.is_empty() {
            e.1 = msg;
        }
        None
    }

    pub fn state(&self) -> State {
        self.map.verif_state()
    }

    pub fn locate(&self, k: u64) -> Location {
        let q = K::mk(k);
        self.map.verif_locate(&q)
    }

    /// 0 absent, 1 main, 2 old in the cursor's group, 3 old beyond it
    pub fn loc_class(&self, loc: Location) -> usize {
        match loc {
            Location::Absent => 0,
            Location::Main(_) => 1,
            Location::Old(i) => {
                if is_zst::<K, V>() {
                    return 2;
                }
                match self.map.verif_cursor() {
                    Some((cur, _)) if !cur.is_empty() => {
                        // the cursor walks groups in order; its current group is the one holding
                        // the smallest index it still has to yield
                        let g = cur.iter().min().unwrap() / group_width();
                        if i / group_width() == g {
                            2
                        } else {
                            3
                        }
                    }
                    _ => 2,
                }
            }
        }
    }

    pub fn next_fresh(&mut self) -> u64 {
        self.fresh += 1;
        (1u64 << 40) + self.fresh
    }

    // ------------------------------------------------------------------------------------
    // one call
    // ------------------------------------------------------------------------------------

    pub fn step(&mut self, op: &Op) -> Res<Obs> {
        heartbeat();
        let st0 = self.state();
        let has_key = op_has_key(op.code);
        let loc0 = if has_key { Some(self.locate(op.k)) } else { None };
        if st0.old.is_none() {
            self.old_removed = false;
        }
        let ph = phase_of(&st0, self.old_removed);
        if let Some(l) = loc0 {
            let c = self.loc_class(l);
            self.stats.loc[c] += 1;
            if c >= 2 {
                self.stats.hist_old_hit = true;
            }
        }
        if st0.old.is_some() {
            self.stats.hist_split = true;
        }
        let _ = take_violations();
        if self.ledger_only {
            return self.step_ledger_only(op, &st0, loc0);
        }
        let r = catch(|| self.exec(op, &st0, loc0));
        let out = match r {
            Err(p) => {
                if p.contains(FUSE_MSG) {
                    viol!(HARNESS, "fuse fired outside a fault run: {p}");
                }
                if p.contains("harness/src") || p.starts_with("HARNESS") {
                    viol!(HARNESS, "harness panic in {}: {p}", op.encode());
                }
                let mut v = Viol { extra: Vec::new(), prop: class_prop(op.code), more: contents_more(op.code), msg: format!("undocumented panic in {}: {p}", op.encode()) };
                if capacity_call_while_split(op.code, &st0) {
                    v.extra.push("C04");
                }
                return Err(v);
            }
            Ok(Err(mut v)) => {
                // (only panics: a contract figure that is off, e.g. the shrink floor, is C10's alone)
                if capacity_call_while_split(op.code, &st0) && v.prop != HARNESS && v.more.contains(&"C01") {
                    v.extra.push("C04");
                }
                // contents found wrong inside the call's own checks: were objects dropped early?
                if self.conserve && v.prop != "C06" && v.prop != HARNESS && v.more.contains(&"C01") && ledger_live() != self.live_base + 2 * self.model.len() {
                    v.extra.push("C06");
                    v.msg = format!("{} [ledger: {} live objects, expected {}]", v.msg, ledger_live(), self.live_base + 2 * self.model.len());
                }
                return Err(v);
            }
            Ok(Ok(o)) => o,
        };
        self.nops += 1;
        self.stats.calls += 1;
        *self.stats.by_code.entry(op.code.name()).or_default() += 1;
        *self.stats.phase_code.entry((ph, op.code.name())).or_default() += 1;
        self.stats.phase[ph] += 1;

        // user-code monitors (liveness / canaries / double drops)
        if let Some((p, m)) = take_violations().into_iter().next() {
            viol!(p, "{m} during {}", op.encode());
        }
        if out.act != out.exp {
            let mut v = Viol {
                extra: Vec::new(),
                prop: class_prop(op.code),
                more: class_more(op.code),
                msg: format!("observation mismatch for {}: got {:?}, model says {:?}", op.encode(), out.act, out.exp),
            };
            if self.conserve && ledger_live() != self.live_base + 2 * self.model.len() {
                v.extra.push("C06");
                v.msg = format!("{} [ledger: {} live objects, expected {}]", v.msg, ledger_live(), self.live_base + 2 * self.model.len());
            }
            return Err(v);
        }
        if let Err(mut v) = self.post(op, &st0, loc0, &out) {
            // a reserve / shrink issued mid-resize that panics or loses elements has interrupted
            // the resize in progress: that is C04's subject as well
            if capacity_call_while_split(op.code, &st0) && v.prop != HARNESS && v.prop != "C04" && (v.prop == "C01" || v.more.contains(&"C01")) {
                v.extra.push("C04");
            }
            // a hard violation ends the history before the ledger rule is evaluated: evaluate it
            // now, so that premature / missing drops are still attributed to C06
            if self.conserve && v.prop != "C06" && v.prop != HARNESS && ledger_live() != self.live_base + 2 * self.model.len() {
                v.extra.push("C06");
                v.msg = format!("{} [ledger: {} live objects, expected {}]", v.msg, ledger_live(), self.live_base + 2 * self.model.len());
            }
            return Err(v);
        }
        if let Some(t) = &mut self.transcript {
            let line = format!(
                "{} => {:?} len={} cap={} split={}",
                op.encode(),
                out.act,
                self.map.len(),
                self.map.capacity(),
                st0.old.is_some() as u8
            );
            if TRANSCRIPT_DIGEST.load(std::sync::atomic::Ordering::Relaxed) {
                // compact form (the two builds are compared line by line; the full text of a
                // diverging history is regenerated on demand)
                let d = digest(line.bytes().map(|b| b as u64));
                t.push(format!("{} {:016x} split={}", op.code.name(), d, st0.old.is_some() as u8));
            } else {
                t.push(line);
            }
        }
        Ok(out.act)
    }

    /// Lifetime-only mode (C06): whatever else the map does wrong, every object must die exactly
    /// once and the number of live objects must match the map's *own* `len()`. Nothing about
    /// contents, results or layout is judged here, so that a double drop that is the late
    /// consequence of some other defect is not masked by the rule that catches the defect first.
    fn step_ledger_only(&mut self, op: &Op, st0: &State, loc0: Option<Location>) -> Res<Obs> {
        let r = catch(|| self.exec(op, st0, loc0));
        self.nops += 1;
        self.stats.calls += 1;
        *self.stats.by_code.entry(op.code.name()).or_default() += 1;
        for (p, m) in take_violations() {
            if p == "C06" {
                viol!("C06", "{m} during {}", op.encode());
            }
        }
        match r {
            Ok(Ok(_)) => {}
            // a misbehaving or panicking call ends the history without a verdict in this mode
            _ => viol!(ABANDON, "history abandoned at {}", op.encode()),
        }
        let len = match catch(|| self.map.len()) {
            Ok(l) => l,
            Err(_) => viol!(ABANDON, "len() panicked"),
        };
        let live = ledger_live();
        if live != self.live_base + 2 * len {
            viol!("C06", "ledger: {} live objects after {} but the map reports len() = {} (2 objects per pair expected: {})", live, op.encode(), len, self.live_base + 2 * len);
        }
        Ok(Vec::new())
    }

    fn post(&mut self, op: &Op, st0: &State, loc0: Option<Location>, out: &Out) -> Res<()> {
        let st1 = self.state();
        let r = st1.r;
        let enc = || op.encode();

        // ---- len / is_empty / capacity (C01, C04) ----
        let len = self.map.len();
        if len != self.model.len() {
            viol_op!(op.code, "len() = {} but the model holds {} after {}", len, self.model.len(), enc());
        }
        if self.map.is_empty() != self.model.is_empty() {
            viol_op!(op.code, "is_empty() = {} with len {} after {}", self.map.is_empty(), len, enc());
        }
        if self.map.capacity() < len {
            soft!(self, "C04", "capacity() = {} < len() = {} after {}", self.map.capacity(), len, enc());
        }
        if st1.main.len + st1.old.as_ref().map_or(0, |o| o.table.len) != len {
            viol!(HARNESS, "hook and len() disagree");
        }
        self.stats.max_len = self.stats.max_len.max(len);

        // ---- objects the map had to drop during the call (C06) ----
        if K::TRACKED {
            for &id in &out.expect_dropped {
                if id != 0 && ledger_state(id) != Some(Life::Dropped) {
                    soft!(self, "C06", "object {} should have been dropped by {} but is {:?}", id, enc(), ledger_state(id));
                }
            }
        }
        if self.conserve {
            let live = ledger_live();
            let want = self.live_base + 2 * self.model.len();
            if live != want {
                soft!(self, "C06",
                    "ledger: {} live objects after {}, expected {} (2 per stored pair); live ids sample {:?}",
                    live,
                    enc(),
                    want,
                    ledger_live_ids(8)
                );
            }
        }

        // ---- headroom (C04, "equivalently" clause): the main table always has room for every
        // element still in the old table plus the insertions needed to move them. A violation
        // makes some later insertion panic, allocate or spin, so the history ends here. ----
        if !is_zst::<K, V>() {
            if let Some(o) = &st1.old {
                let l = o.table.len;
                let need = l + (l + r - 1) / r;
                let room = st1.main.capacity.saturating_sub(st1.main.len);
                if l > 0 && room < need {
                    // a clone / clone_from whose product cannot take insertions the source can
                    // take is not an equal, independent map either
                    let more: &'static [&'static str] = if matches!(op.code, Code::CloneSwap | Code::CloneFrom) { &["C11"] } else { &[] };
                    // when another property is under check the history goes on: what that
                    // property promises may fail as a consequence (a panic, a crash, a hang)
                    let fatal = self.focus.is_empty() || self.focus == "C04" || more.contains(&self.focus);
                    let v = Viol {
                        extra: Vec::new(),
                        prop: "C04",
                        more,
                        msg: format!(
                            "after {} the main table has room for {} more elements (capacity {} - len {}) but {} are still in the old table and moving them takes {} insertions: {} needed",
                            enc(),
                            room,
                            st1.main.capacity,
                            st1.main.len,
                            l,
                            (l + r - 1) / r,
                            need
                        ),
                    };
                    if fatal {
                        return Err(v);
                    }
                    let e = self.stats.also.entry("C04").or_insert((0, String::new()));
                    e.0 += 1;
                    if e.1.is_empty() {
                        e.1 = v.msg;
                    }
                }
            }
        }

        // ---- R itself (C02) ----
        if r != self.expected_r {
            soft!(self, "C02", "the crate moves R = {} elements per insert in this build, expected {}", r, self.expected_r);
        }

        // ---- cursor agreement (C05) ----
        if let Some(o) = &st1.old {
            self.stats.max_old_buckets = self.stats.max_old_buckets.max(o.table.buckets);
            if o.cursor_remaining > o.table.len {
                // the cursor would walk past the elements that exist: going on is not safe.
                // Iteration clones this cursor, so the call also left the observable contents
                // wrong: the op's own property is violated as well.
                // (and every iterator created now announces a wrong length: C08's exact-length
                // clause, observed without touching an element)
                let hint = self.map.iter().size_hint();
                return Err(Viol {
                    extra: if hint.0 != len { vec!["C08"] } else { Vec::new() },
                    prop: "C05",
                    more: cursor_more(op.code),
                    msg: format!(
                        "cached iterator believes {} elements remain but the old table holds {} after {} (iteration would yield elements that are gone; iter().size_hint() = {:?}, len() = {})",
                        o.cursor_remaining,
                        o.table.len,
                        enc(),
                        hint,
                        len
                    ),
                });
            }
            if o.cursor_remaining < o.table.len {
                let hint = self.map.iter().size_hint();
                if hint.0 != len {
                    soft!(self, "C08", "iter().size_hint() = {:?} but len() = {} after {} (the cached iterator lost track of {} elements of the old table)", hint, len, enc(), o.table.len - o.cursor_remaining);
                }
                // elements will be stranded, but continuing the history is memory-safe
                soft!(
                    self,
                    "C05",
                    "cached iterator believes {} elements remain but the old table holds {} after {}",
                    o.cursor_remaining,
                    o.table.len,
                    enc()
                );
            } else if self.nops % self.cursor_every == 0 && !is_zst::<K, V>() {
                if let Some((mut cur, mut full)) = self.map.verif_cursor() {
                    cur.sort_unstable();
                    full.sort_unstable();
                    if cur != full {
                        return Err(Viol {
                            extra: Vec::new(),
                            prop: "C05",
                            more: cursor_more(op.code),
                            msg: format!("cached iterator would visit buckets {:?} but the old table's full buckets are {:?} after {}", cur, full, enc()),
                        });
                    }
                    self.stats.cursor_checks += 1;
                    if o.table.buckets > group_width() {
                        self.stats.cursor_checks_multi_group += 1;
                    }
                }
            }
            if o.table.len == 0 {
                self.stats.p4_seen += 1;
            }
        }

        // ---- tables owned (C03) ----
        let tables_hook = (st1.main.buckets > 1) as i64 + st1.old.is_some() as i64;
        if self.alloc_checks {
            let live = table_live() - self.tables_base;
            if live > 2 {
                soft!(self, "C03", "the map owns {} table allocations after {}", live, enc());
            }
            if live != tables_hook {
                soft!(self, "C03",
                    "allocator sees {} live table allocations but the map references {} after {}",
                    live,
                    tables_hook,
                    enc()
                );
            }
        }

        // ---- per-kind rules (C02, C03) ----
        let old0 = st0.old.as_ref().map(|o| o.table.len);
        let old1 = st1.old.as_ref().map(|o| o.table.len);
        let zst = is_zst::<K, V>();
        match &out.kind {
            Kind::Read { hashes } => {
                if st1 != *st0 {
                    soft!(self, "C02", "{} changed the table state: {:?} -> {:?}", enc(), st0, st1);
                }
                if self.work_checks && out.hashes != *hashes {
                    soft!(self, "C02", "{} performed {} hash computations, expected {}", enc(), out.hashes, hashes);
                }
                if self.alloc_checks && out.tallocs != 0 {
                    soft!(self, "C02", "{} allocated {} tables", enc(), out.tallocs);
                }
            }
            Kind::Traverse => {
                if st1 != *st0 {
                    soft!(self, "C02", "{} changed the table state: {:?} -> {:?}", enc(), st0, st1);
                }
                if self.alloc_checks && out.tallocs != 0 {
                    soft!(self, "C02", "{} allocated {} tables", enc(), out.tallocs);
                }
            }
            Kind::Keyed { base_hashes, add_hashes, effects } => {
                let loc0 = loc0.unwrap_or(Location::Absent);
                // simulate the effects on (location, old length)
                let mut loc = match loc0 {
                    Location::Absent => 0,
                    Location::Main(_) => 1,
                    Location::Old(_) => 2,
                };
                let mut exact = effects.len() <= 1;
                let mut want: Option<usize> = old0; // expected old length (None = no old table)
                let mut either_empty = false; // Some(0) and None both acceptable
                let mut adds = 0u64;
                let mut removed_old = 0usize;
                let mut grew = false;
                for e in effects {
                    match e {
                        Eff::AddNew | Eff::OverwriteOld => {
                            if *e == Eff::AddNew && loc != 0 || *e == Eff::OverwriteOld && loc != 2 {
                                viol!(HARNESS, "effect {:?} with location class {} in {}", e, loc, enc());
                            }
                            adds += 1;
                            match want {
                                Some(l) => {
                                    let l2 = l - l.min(r);
                                    want = if l2 == 0 { None } else { Some(l2) };
                                    either_empty = false;
                                }
                                None => {
                                    if *e == Eff::AddNew && !zst && st0.main.capacity == st0.main.len && effects.len() == 1 {
                                        let l = st0.main.len;
                                        let l2 = l - l.min(r);
                                        want = if l2 == 0 { None } else { Some(l2) };
                                        grew = l > 0 || st0.main.buckets > 1 || true;
                                    }
                                }
                            }
                            if *e == Eff::AddNew {
                                loc = 1;
                            } else {
                                // the overwritten element may or may not have been carried
                                loc = 3;
                            }
                        }
                        Eff::Remove | Eff::ReplaceNone => {
                            if loc == 0 {
                                viol!(HARNESS, "removal effect on an absent key in {}", enc());
                            }
                            if loc == 3 {
                                exact = false;
                            }
                            if loc == 2 {
                                removed_old += 1;
                                let l = want.unwrap_or(0);
                                if l == 0 {
                                    viol!(HARNESS, "old-table key without an old table in {}", enc());
                                }
                                let l2 = l - 1;
                                if l2 == 0 {
                                    if *e == Eff::Remove {
                                        want = None;
                                    } else {
                                        want = Some(0);
                                        either_empty = true;
                                    }
                                } else {
                                    want = Some(l2);
                                }
                            }
                            loc = 0;
                        }
                    }
                }
                self.stats.removed_from_old += removed_old as u64;
                if removed_old > 0 {
                    self.old_removed = true;
                }
                self.stats.key_adding += adds;
                let growth_predicted =
                    adds == 1 && effects.len() == 1 && effects[0] == Eff::AddNew && old0.is_none() && !zst && st0.main.capacity == st0.main.len;
                if growth_predicted {
                    self.stats.growths += 1;
                    let _ = grew;
                }
                if exact {
                    let ok = if either_empty && want == Some(0) { old1 == Some(0) || old1.is_none() } else { old1 == want };
                    if !ok {
                        // moved more than R => work bound (C02); fewer, or not freed => progress (C03)
                        let l1 = old1.unwrap_or(0);
                        let lw = want.unwrap_or(0);
                        if l1 < lw {
                            soft!(self, "C02",
                                "{} moved more than R = {} elements: old table {:?} -> {:?} (expected {:?})",
                                enc(),
                                r,
                                old0,
                                old1,
                                want
                            );
                        }
                        soft!(self, "C03",
                            "after {} the old table holds {:?} elements, the progress rule requires {:?} (before: {:?}, main {}/{}, R = {})",
                            enc(),
                            old1,
                            want,
                            old0,
                            st0.main.len,
                            st0.main.capacity,
                            r
                        );
                    }
                } else {
                    // weak bounds for multi-effect chains
                    let l0 = if growth_predicted { st0.main.len } else { old0.unwrap_or(0) };
                    let l1 = old1.unwrap_or(0);
                    // with two key-adding effects the first may complete the pending resize and
                    // the second start a new one, so "grew" is only meaningful for a single add
                    if old0.is_some() && l1 > l0 && adds <= 1 {
                        soft!(self, "C03", "old table grew from {} to {} during {}", l0, l1, enc());
                    }
                    if adds > 0 && old1 == Some(0) {
                        soft!(self, "C03", "empty old table still allocated after the key-adding call {}", enc());
                    }
                }
                if adds > 0 && !either_empty && old1 == Some(0) {
                    soft!(self, "C03", "empty old table still allocated after the key-adding call {}", enc());
                }
                // work bounds
                if self.work_checks {
                    let bound = base_hashes + add_hashes + adds * r as u64;
                    if out.hashes > bound {
                        soft!(self, "C02",
                            "{} performed {} hash computations, bound is {} ({} own + {} moved)",
                            enc(),
                            out.hashes,
                            bound,
                            base_hashes + add_hashes,
                            adds * r as u64
                        );
                    }
                    if adds == 0 && out.hashes != *base_hashes {
                        soft!(self, "C02", "{} performed {} hash computations, expected {}", enc(), out.hashes, base_hashes);
                    }
                    if adds > 0 {
                        self.stats.max_hashes_add = self.stats.max_hashes_add.max(out.hashes);
                    }
                }
                if self.alloc_checks {
                    if out.tallocs > adds {
                        soft!(self, "C02", "{} performed {} table allocations (key-adding effects: {})", enc(), out.tallocs, adds);
                    }
                    if adds == 1 && effects.len() == 1 && out.tallocs == 1 && !growth_predicted && st0.main.buckets > 1 {
                        soft!(self, "C04",
                            "{} allocated a table although the main table had room (main {}/{}, old {:?})",
                            enc(),
                            st0.main.len,
                            st0.main.capacity,
                            old0
                        );
                    }
                }
                if adds == 0 && st1.main.buckets != st0.main.buckets {
                    soft!(self, "C02", "{} resized the main table", enc());
                }
                // C03: bounded completion
                if !exact {
                    self.since_growth = None;
                } else if growth_predicted {
                    let left = st0.main.len.saturating_sub(r.min(st0.main.len));
                    self.since_growth = if left > 0 { Some((st0.main.len, 1)) } else { None };
                } else if adds > 0 {
                    if let Some((l, n)) = self.since_growth {
                        let n = n + adds;
                        let limit = ((l + r - 1) / r) as u64;
                        if st1.old.is_some() && n >= limit {
                            soft!(self, "C03",
                                "resize that left {} elements behind is still pending after {} key-adding calls (limit {}) at {}",
                                l,
                                n,
                                limit,
                                enc()
                            );
                        }
                        self.since_growth = if st1.old.is_some() { Some((l, n)) } else { None };
                    }
                }
                if st0.old.is_some() && st1.old.is_none() {
                    self.stats.resizes_completed += 1;
                    self.since_growth = None;
                }
                let moved = (old0.unwrap_or(if growth_predicted { st0.main.len } else { 0 }))
                    .saturating_sub(old1.unwrap_or(0))
                    .saturating_sub(removed_old);
                self.stats.max_moved = self.stats.max_moved.max(moved as u64);
            }
            Kind::Bulk { new_keys, hashes_max, may_alloc } => {
                let l0 = old0.unwrap_or(0);
                let l1 = old1.unwrap_or(0);
                if old0.is_some() && !*may_alloc && l1 > l0 {
                    soft!(self, "C03", "old table grew from {} to {} during {}", l0, l1, enc());
                }
                if *new_keys > 0 && old1 == Some(0) {
                    soft!(self, "C03", "empty old table still allocated after the key-adding call {}", enc());
                }
                if !*may_alloc {
                    if self.alloc_checks && out.tallocs != 0 {
                        soft!(self, "C02", "{} allocated {} tables", enc(), out.tallocs);
                    }
                    if old0.is_some() && old1.is_none() {
                        self.stats.resizes_completed += 1;
                    }
                }
                if let (true, Some(hm)) = (self.work_checks, hashes_max) {
                    if out.hashes > *hm {
                        soft!(self, "C02", "{} performed {} hash computations, bound is {}", enc(), out.hashes, hm);
                    }
                }
                self.since_growth = None;
            }
            Kind::Reset => {
                if st1.old.is_some() {
                    soft!(self, "C03", "old table still allocated after {}", enc());
                }
                self.since_growth = None;
            }
            Kind::Capacity => {
                // growth that leaves nothing behind is complete at once: a capacity call never
                // *creates* an empty old table (one left by retain / replace_entry_with may
                // legitimately survive a reserve that needs no growth)
                if old1 == Some(0) && old0 != Some(0) {
                    soft!(self, "C03", "an empty old table is allocated after {} (before: {:?})", enc(), old0);
                }
                self.since_growth = None;
            }
            Kind::Other => {
                self.since_growth = None;
            }
        }

        // ---- C03: "deallocated as soon as its last element is moved out or removed"; only
        // retain and replace_entry_with may leave an emptied old table behind ----
        if let (Some(l0), Some(0)) = (old0, old1) {
            if l0 > 0 && !may_leave_empty_old_table(op) {
                soft!(self, "C03", "{} took the last {} element(s) out of the old table but did not release it", enc(), l0);
            }
        }

        // ---- contents (C01 & co) ----
        if self.nops % self.check_every == 0 {
            self.full_check(class_prop(op.code), contents_more(op.code), &enc())?;
        }
        Ok(())
    }

    /// Compare the complete contents (keys, payloads and object identities) with the model.
    pub fn full_check(&mut self, prop: &'static str, more: &'static [&'static str], ctx: &str) -> Res<()> {
        self.stats.full_checks += 1;
        let mut got: Vec<(u64, u64, u64, u64)> = Vec::with_capacity(self.map.len());
        let r = catch(|| {
            for (k, v) in self.map.iter() {
                got.push((k.val(), k.id(), v.val(), v.id()));
            }
        });
        if let Err(p) = r {
            return Err(Viol { extra: Vec::new(), prop, more, msg: format!("panic while iterating after {ctx}: {p}") });
        }
        if let Some((p, m)) = take_violations().into_iter().next() {
            viol!(p, "{m} while iterating after {ctx}");
        }
        got.sort_unstable();
        let want: Vec<(u64, u64, u64, u64)> = self.model.iter().map(|(k, s)| (*k, s.kid, s.pay, s.vid)).collect();
        if got != want {
            let diff = first_diff(&got, &want);
            return Err(Viol { extra: Vec::new(), prop, more, msg: format!("contents differ from the model after {ctx}: {diff} (map has {} entries, model {})", got.len(), want.len()) });
        }
        Ok(())
    }

    /// Final drop accounting: drop the map, everything must be released.
    pub fn finish(self) -> Res<Stats> {
        let Mon { map, model, live_base, tables_base, alloc_checks, conserve, stats, ledger_only, .. } = self;
        let alloc_checks = alloc_checks && !ledger_only;
        let _ = take_violations();
        let r = catch(move || drop(map));
        if let Err(p) = r {
            viol!("C06", "panic while dropping the map: {p}");
        }
        drop(model);
        if let Some((p, m)) = take_violations().into_iter().next() {
            viol!(p, "{m} while dropping the map");
        }
        if conserve {
            let live = ledger_live();
            if live != live_base {
                viol!(
                    "C06",
                    "{} objects still live after the map was dropped (leak), sample ids {:?}",
                    live - live_base.min(live),
                    ledger_live_ids(8)
                );
            }
        }
        if alloc_checks {
            let live = table_live() - tables_base;
            if live != 0 {
                viol!("C06", "{} table allocations still live after the map was dropped", live);
            }
        }
        Ok(stats)
    }
}

fn first_diff(got: &[(u64, u64, u64, u64)], want: &[(u64, u64, u64, u64)]) -> String {
    let mut i = 0;
    let mut j = 0;
    while i < got.len() && j < want.len() {
        if got[i] == want[j] {
            i += 1;
            j += 1;
        } else if got[i].0 < want[j].0 {
            return format!("map holds unexpected (key {}, key-id {}, payload {}, value-id {})", got[i].0, got[i].1, got[i].2, got[i].3);
        } else if got[i].0 > want[j].0 {
            return format!("map lacks (key {}, key-id {}, payload {}, value-id {})", want[j].0, want[j].1, want[j].2, want[j].3);
        } else {
            return format!("key {}: map has (key-id {}, payload {}, value-id {}), model (key-id {}, payload {}, value-id {})", got[i].0, got[i].1, got[i].2, got[i].3, want[j].1, want[j].2, want[j].3);
        }
    }
    if i < got.len() {
        return format!("map holds unexpected key {}", got[i].0);
    }
    if j < want.len() {
        return format!("map lacks key {}", want[j].0);
    }
    "no difference".into()
}

pub fn capacity_call_while_split(c: Code, st0: &State) -> bool {
    matches!(c, Code::Reserve | Code::TryReserve | Code::ShrinkTo | Code::ShrinkToFit) && st0.old.as_ref().map_or(false, |o| o.table.len > 0)
}

/// C03 names the calls after which an emptied old table may stay allocated: retain and
/// replace_entry_with (entry / raw-entry chains containing such a step).
pub fn may_leave_empty_old_table(op: &Op) -> bool {
    use crate::ops::step::*;
    match op.code {
        Code::Retain | Code::SRetain => true,
        Code::Entry | Code::RawEntryMut => op.list.chunks(2).any(|c| matches!(c[0], E_AND_REPLACE | O_REPLACE_WITH | RE_AND_REPLACE | RO_REPLACE_WITH)),
        _ => false,
    }
}

pub fn op_has_key(c: Code) -> bool {
    use Code::*;
    matches!(
        c,
        Insert | Get | GetMut | GetKeyValue | GetKeyValueMut | ContainsKey | Index | Remove | RemoveEntry | Entry | RawEntryMut | RawEntry
            | SInsert | SReplace | SRemove | STake | SGet | SContains | SGetOrInsert | SGetOrInsertOwned | SGetOrInsertWith
    )
}

/// Property a plain observation mismatch / undocumented panic of this op is attributed to.
/// Properties (besides C05) violated when a call leaves the cached iterator pointing at elements
/// that are gone: iteration clones that iterator, so the contents the call's own property talks
/// about are observably wrong.
pub fn cursor_more(c: Code) -> &'static [&'static str] {
    match class_prop(c) {
        "C01" => &["C01"],
        "C12" => &["C12", "C01"],
        "C08" => &["C08"],
        "C09" => &["C09"],
        "C10" => &["C10"],
        "C11" => &["C11"],
        "C13" => &["C13"],
        _ => &[],
    }
}

/// Wrong contents / wrong len / an undocumented panic after *any* call are also C01's business:
/// its quantifier ranges over all histories of the public map API, and the very next lookup
/// would observe the damage.
pub fn contents_more(c: Code) -> &'static [&'static str] {
    match class_prop(c) {
        "C01" => &[],
        "C13" => &[],
        _ => &["C01"],
    }
}

pub fn class_more(c: Code) -> &'static [&'static str] {
    use Code::*;
    match c {
        // C01's statement names entry/raw-entry operations and writes through iter_mut/values_mut
        Entry | RawEntryMut | RawEntry | IterMut | ValuesMut => &["C01"],
        // set element operations are map operations underneath
        _ => &[],
    }
}

pub fn class_prop(c: Code) -> &'static str {
    use Code::*;
    match c {
        Entry | RawEntryMut | RawEntry => "C12",
        Iter | Keys | Values | IterMut | ValuesMut | IntoIter | Drain | SIter | SIntoIter | SDrain => "C08",
        Retain | DrainFilter | SRetain | SDrainFilter => "C09",
        Reserve | TryReserve | ShrinkToFit | ShrinkTo | WithCapacity | ExtendHinted | SReserve | SShrinkToFit => "C10",
        CloneSwap | CloneFrom | SCloneSwap => "C11",
        EqSelf | DebugFmt => "C14",
        Probe => "C04",
        SInsert | SReplace | SRemove | STake | SGet | SContains | SGetOrInsert | SGetOrInsertOwned | SGetOrInsertWith | SExtend | SClear => "C13",
        _ => "C01",
    }
}
