//! Running histories: generated or replayed, with shrinking, replay files and shard reports.

use crate::base::*;
use crate::gen::*;
use crate::mon::*;
use crate::ops::*;
use std::collections::{BTreeMap, BTreeSet};
use std::fmt::Write as _;

#[derive(Clone, Copy, Debug, PartialEq, Eq)]
pub enum ElemKind {
    U64,
    TrInline,
    TrHeap,
    /// u64 keys, 512-byte values
    Big,
}

impl ElemKind {
    pub fn name(self) -> &'static str {
        match self {
            ElemKind::U64 => "u64",
            ElemKind::TrInline => "tracked-inline",
            ElemKind::TrHeap => "tracked-heap",
            ElemKind::Big => "u64-to-512B",
        }
    }
    pub fn parse(s: &str) -> Option<ElemKind> {
        Some(match s {
            "u64" => ElemKind::U64,
            "tracked-inline" => ElemKind::TrInline,
            "tracked-heap" => ElemKind::TrHeap,
            "u64-to-512B" => ElemKind::Big,
            _ => return None,
        })
    }
}

#[derive(Clone, Debug)]
pub struct Cfg {
    pub elem: ElemKind,
    pub bh: Bh,
    /// usize::MAX = HashMap::with_hasher (no capacity request)
    pub cap: usize,
    pub check_every: u64,
    pub cursor_every: u64,
    /// property under check ("" = every rule fatal)
    pub focus: &'static str,
    /// judge object lifetimes only
    pub ledger_only: bool,
}

impl Cfg {
    pub fn describe(&self) -> String {
        format!("elem={} hasher={:?}/{} cap={}", self.elem.name(), self.bh.mode, self.bh.seed, if self.cap == usize::MAX { "new".to_string() } else { self.cap.to_string() })
    }
}

pub fn flavour() -> &'static str {
    if cfg!(miri) {
        "miri"
    } else if cfg!(debug_assertions) {
        "debug"
    } else {
        "release"
    }
}

// ------------------------------------------------------------------------------------------
// generic dispatch
// ------------------------------------------------------------------------------------------

pub struct HistOutcome {
    pub ops: Vec<Op>,
    pub stats: Stats,
    pub viol: Option<(Viol, usize)>,
    pub transcript: Option<Vec<String>>,
}

pub fn new_mon<K: El, V: El>(cfg: &Cfg) -> Mon<K, V> {
    ledger_reset();
    let _ = take_violations();
    let mut m: Mon<K, V> = Mon::new(cfg.cap, cfg.bh);
    m.check_every = cfg.check_every.max(1);
    m.cursor_every = cfg.cursor_every.max(1);
    m.focus = cfg.focus;
    m.ledger_only = cfg.ledger_only;
    m
}

fn run_gen_t<K: El, V: El>(cfg: &Cfg, gen: &mut Gen, transcript: bool, end_probe: bool) -> HistOutcome {
    let mut mon: Mon<K, V> = new_mon(cfg);
    if transcript {
        mon.transcript = Some(Vec::new());
    }
    let mut ops = Vec::new();
    let mut viol = None;
    while let Some(op) = gen.next_op(&mon) {
        let r = mon.step(&op);
        ops.push(op);
        if let Err(v) = r {
            viol = Some((v, ops.len()));
            break;
        }
    }
    if viol.is_none() && end_probe && mon.map.capacity() - mon.map.len() <= 8192 {
        let op = Op::new(Code::Probe);
        let r = mon.step(&op);
        ops.push(op);
        if let Err(v) = r {
            viol = Some((v, ops.len()));
        }
    }
    let t = mon.transcript.take();
    if viol.is_some() {
        let stats = std::mem::take(&mut mon.stats);
        // the map may be inconsistent: leak it rather than run its destructor
        std::mem::forget(mon);
        return HistOutcome { ops, stats, viol, transcript: t };
    }
    let n = ops.len();
    let mut stats = mon.stats.clone();
    match mon.finish() {
        Ok(s) => HistOutcome { ops, stats: s, viol: None, transcript: t },
        Err(v) => {
            stats.calls += 0;
            HistOutcome { ops, stats, viol: Some((v, n)), transcript: t }
        }
    }
}

pub fn run_generated(cfg: &Cfg, gen: &mut Gen, transcript: bool, end_probe: bool) -> HistOutcome {
    match cfg.elem {
        ElemKind::U64 => run_gen_t::<u64, u64>(cfg, gen, transcript, end_probe),
        ElemKind::TrInline => run_gen_t::<Tr<false>, Tr<false>>(cfg, gen, transcript, end_probe),
        ElemKind::TrHeap => run_gen_t::<Tr<true>, Tr<true>>(cfg, gen, transcript, end_probe),
        ElemKind::Big => run_gen_t::<u64, Big>(cfg, gen, transcript, end_probe),
    }
}

fn run_ops_t<K: El, V: El>(cfg: &Cfg, ops: &[Op]) -> Result<Stats, (Viol, usize)> {
    let mut mon: Mon<K, V> = new_mon(cfg);
    for (i, op) in ops.iter().enumerate() {
        if let Err(v) = mon.step(op) {
            std::mem::forget(mon);
            return Err((v, i + 1));
        }
    }
    mon.finish().map_err(|v| (v, ops.len()))
}

pub fn run_ops(cfg: &Cfg, ops: &[Op]) -> Result<Stats, (Viol, usize)> {
    match cfg.elem {
        ElemKind::U64 => run_ops_t::<u64, u64>(cfg, ops),
        ElemKind::TrInline => run_ops_t::<Tr<false>, Tr<false>>(cfg, ops),
        ElemKind::TrHeap => run_ops_t::<Tr<true>, Tr<true>>(cfg, ops),
        ElemKind::Big => run_ops_t::<u64, Big>(cfg, ops),
    }
}

/// Greedy shrinking: drop chunks of the history while the same property still fires.
pub fn shrink(cfg: &Cfg, ops: &[Op], prop: &str, budget_ms: u128) -> Vec<Op> {
    let t0 = std::time::Instant::now();
    let mut cur: Vec<Op> = ops.to_vec();
    let mut chunk = (cur.len() / 2).max(1);
    while chunk >= 1 {
        let mut i = 0;
        let mut progressed = false;
        while i < cur.len() {
            if t0.elapsed().as_millis() > budget_ms {
                return cur;
            }
            let mut cand = cur.clone();
            let end = (i + chunk).min(cand.len());
            cand.drain(i..end);
            let still = match run_ops(cfg, &cand) {
                Err((v, _)) => v.hits(prop),
                Ok(_) => false,
            };
            if still {
                cur = cand;
                progressed = true;
            } else {
                i += chunk;
            }
        }
        if chunk == 1 && !progressed {
            break;
        }
        chunk = if chunk == 1 { if progressed { 1 } else { 0 } } else { chunk / 2 };
        if chunk == 0 {
            break;
        }
    }
    cur
}

// ------------------------------------------------------------------------------------------
// replay files
// ------------------------------------------------------------------------------------------

pub fn write_replay(dir: &str, prop: &str, tag: &str, cfg: &Cfg, ops: &[Op], msg: &str, extra: &[(&str, String)]) -> String {
    let _ = std::fs::create_dir_all(format!("{dir}/{prop}"));
    let path = format!("{dir}/{prop}/{tag}.replay");
    let mut s = String::new();
    let _ = writeln!(s, "# gv replay");
    let _ = writeln!(s, "property {prop}");
    let _ = writeln!(s, "flavour {}", flavour());
    let _ = writeln!(s, "message {}", msg.replace('\n', " "));
    let _ = writeln!(s, "elem {}", cfg.elem.name());
    let _ = writeln!(s, "hasher {}", crate::exec::bh_to_code(&cfg.bh));
    let _ = writeln!(s, "cap {}", cfg.cap);
    let _ = writeln!(s, "check_every {}", cfg.check_every);
    if cfg.ledger_only {
        let _ = writeln!(s, "ledger_only 1");
    }
    for (k, v) in extra {
        let _ = writeln!(s, "{k} {v}");
    }
    for op in ops {
        let _ = writeln!(s, "op {}", op.encode());
    }
    let _ = std::fs::write(&path, s);
    path
}

pub struct Replay {
    pub prop: String,
    pub kind: String,
    pub cfg: Cfg,
    pub ops: Vec<Op>,
    pub fields: BTreeMap<String, String>,
}

pub fn read_replay(path: &str) -> Option<Replay> {
    let text = std::fs::read_to_string(path).ok()?;
    let mut fields = BTreeMap::new();
    let mut ops = Vec::new();
    for line in text.lines() {
        if line.starts_with('#') || line.trim().is_empty() {
            continue;
        }
        let (k, v) = line.split_once(' ').unwrap_or((line, ""));
        if k == "op" {
            ops.push(Op::decode(v)?);
        } else {
            fields.insert(k.to_string(), v.to_string());
        }
    }
    let cfg = Cfg {
        elem: ElemKind::parse(fields.get("elem").map(|s| s.as_str()).unwrap_or("u64"))?,
        bh: crate::exec::bh_from_code(fields.get("hasher").and_then(|s| s.parse().ok()).unwrap_or(0)),
        cap: fields.get("cap").and_then(|s| s.parse().ok()).unwrap_or(0),
        check_every: fields.get("check_every").and_then(|s| s.parse().ok()).unwrap_or(1),
        cursor_every: 1,
        focus: static_prop(fields.get("property").map(|s| s.as_str()).unwrap_or("")),
        ledger_only: fields.get("ledger_only").map_or(false, |v| v == "1"),
    };
    Some(Replay { prop: fields.get("property").cloned().unwrap_or_default(), kind: fields.get("kind").cloned().unwrap_or_else(|| "map".into()), cfg, ops, fields })
}

// ------------------------------------------------------------------------------------------
// shard report
// ------------------------------------------------------------------------------------------

#[derive(Default)]
pub struct Report {
    pub prop: String,
    pub workload: String,
    pub evaluations: u64,
    pub nontrivial: BTreeSet<u64>,
    pub samples: Vec<String>,
    pub stats: Stats,
    pub extra: BTreeMap<String, u64>,
    pub notes: BTreeMap<String, String>,
    /// violations attributed to the property under check: (message, replay path)
    pub violations: Vec<(String, String)>,
    /// violations of other properties noticed on the way
    pub also: BTreeMap<String, (u64, String)>,
    pub harness_errors: Vec<String>,
    pub replay_dir: String,
    /// (property, message) of the most recent direct_violation call (for transcripts)
    pub last_direct: Option<(String, String)>,
}

impl Report {
    pub fn new(prop: &str, workload: &str, replay_dir: &str) -> Report {
        Report { prop: prop.to_string(), workload: workload.to_string(), replay_dir: replay_dir.to_string(), ..Default::default() }
    }

    pub fn bump(&mut self, key: &str, by: u64) {
        *self.extra.entry(key.to_string()).or_default() += by;
    }
    pub fn max(&mut self, key: &str, v: u64) {
        let e = self.extra.entry(key.to_string()).or_default();
        *e = (*e).max(v);
    }

    pub fn sample(&mut self, s: String) {
        if self.samples.len() < 3 {
            self.samples.push(s);
        }
    }

    /// Record the outcome of one history. Returns true if a violation of the checked property
    /// was recorded.
    pub fn record(&mut self, cfg: &Cfg, tag: &str, out: HistOutcome, nontrivial: impl Fn(&Stats) -> bool) -> bool {
        self.evaluations += 1;
        for (k, (n, m)) in &out.stats.also {
            let e = self.also.entry(k.to_string()).or_insert((0, String::new()));
            e.0 += n;
            if e.1.is_empty() {
                e.1 = m.clone();
                println!("ALSO-OBSERVED property={} {}", k, m);
            }
        }
        self.stats.merge(&out.stats);
        match out.viol {
            None => {
                if nontrivial(&out.stats) {
                    self.nontrivial.insert(history_digest(&out.ops));
                    if self.samples.len() < 3 {
                        self.samples.push(format!("{} :: {}", cfg.describe(), summarize_ops(&out.ops, 45)));
                    }
                }
                false
            }
            Some((v, _at)) => self.violation(cfg, tag, &out.ops, v),
        }
    }

    pub fn violation(&mut self, cfg: &Cfg, tag: &str, ops: &[Op], v: Viol) -> bool {
        if v.prop == ABANDON {
            self.bump("histories_abandoned_without_verdict", 1);
            return false;
        }
        if v.prop == HARNESS {
            if self.harness_errors.len() < 5 {
                let path = write_replay(&self.replay_dir, "HARNESS", tag, cfg, ops, &v.msg, &[]);
                self.harness_errors.push(format!("{} (replay {})", v.msg, path));
            }
            return false;
        }
        if v.hits(&self.prop) {
            if self.violations.len() < 5 {
                let prop = self.prop.clone();
                let small = shrink(cfg, ops, &prop, 2000);
                let msg = match run_ops(cfg, &small) {
                    Err((v2, _)) if v2.hits(&prop) => v2.msg,
                    _ => v.msg.clone(),
                };
                let path = write_replay(&self.replay_dir, &prop, tag, cfg, &small, &msg, &[("original_len", ops.len().to_string())]);
                println!("VIOLATION property={} replay={}", prop, path);
                println!("  detail: {}", msg);
                self.violations.push((msg, path));
            }
            true
        } else {
            let e = self.also.entry(v.prop.to_string()).or_insert((0, String::new()));
            e.0 += 1;
            if e.1.is_empty() {
                e.1 = v.msg.clone();
                println!("ALSO-OBSERVED property={} {}", v.prop, v.msg);
            }
            false
        }
    }

    pub fn direct_violation(&mut self, prop: &str, tag: &str, msg: &str, body: &[(&str, String)]) -> bool {
        if prop == HARNESS {
            if self.harness_errors.len() < 5 {
                self.harness_errors.push(msg.to_string());
            }
            return false;
        }
        self.last_direct = Some((prop.to_string(), msg.to_string()));
        if prop == self.prop {
            if self.violations.len() < 5 {
                let _ = std::fs::create_dir_all(format!("{}/{}", self.replay_dir, prop));
                let path = format!("{}/{}/{}.replay", self.replay_dir, prop, tag);
                let mut s = format!("# gv replay\nproperty {prop}\nflavour {}\nmessage {}\n", flavour(), msg.replace('\n', " "));
                for (k, v) in body {
                    let _ = writeln!(s, "{k} {v}");
                }
                let _ = std::fs::write(&path, s);
                println!("VIOLATION property={} replay={}", prop, path);
                println!("  detail: {}", msg);
                self.violations.push((msg.to_string(), path));
            }
            true
        } else {
            let e = self.also.entry(prop.to_string()).or_insert((0, String::new()));
            e.0 += 1;
            if e.1.is_empty() {
                e.1 = msg.to_string();
                println!("ALSO-OBSERVED property={} {}", prop, msg);
            }
            false
        }
    }

    pub fn to_json(&self) -> String {
        let mut s = String::from("{");
        let _ = write!(s, "\"prop\":{},\"workload\":{},\"flavour\":{},", js(&self.prop), js(&self.workload), js(flavour()));
        let _ = write!(s, "\"evaluations\":{},\"distinct_nontrivial\":{},", self.evaluations, self.nontrivial.len());
        let _ = write!(s, "\"samples\":[{}],", self.samples.iter().map(|x| js(x)).collect::<Vec<_>>().join(","));
        let st = &self.stats;
        let mut kv: BTreeMap<String, u64> = self.extra.clone();
        kv.insert("calls".into(), st.calls);
        kv.insert("growths".into(), st.growths);
        kv.insert("resizes_completed".into(), st.resizes_completed);
        kv.insert("max_len".into(), st.max_len as u64);
        kv.insert("max_old_buckets".into(), st.max_old_buckets as u64);
        kv.insert("cursor_checks".into(), st.cursor_checks);
        kv.insert("cursor_checks_multi_group".into(), st.cursor_checks_multi_group);
        kv.insert("full_content_checks".into(), st.full_checks);
        kv.insert("probes".into(), st.probes);
        kv.insert("probe_keys".into(), st.probe_keys);
        kv.insert("removed_from_old".into(), st.removed_from_old);
        kv.insert("empty_old_table_states".into(), st.p4_seen);
        kv.insert("key_adding_calls".into(), st.key_adding);
        kv.insert("max_hashes_per_adding_call".into(), st.max_hashes_add);
        kv.insert("max_moved_per_call".into(), st.max_moved);
        kv.insert("expected_panics".into(), st.expected_panics);
        kv.insert("alloc_failures_injected".into(), st.alloc_fail_injected);
        kv.insert("overflow_arguments".into(), st.overflow_args);
        for i in 0..4 {
            kv.insert(format!("loc_{}", ["absent", "main", "old_cursor_group", "old_beyond"][i]), st.loc[i]);
            kv.insert(format!("probe_slack_{}", ["0", "1", "2", "3plus"][i]), st.probe_slack[i]);
        }
        for i in 0..9 {
            kv.insert(format!("phase_{}", PHASES[i]), st.phase[i]);
        }
        let _ = write!(s, "\"counts\":{{{}}},", kv.iter().map(|(k, v)| format!("{}:{}", js(k), v)).collect::<Vec<_>>().join(","));
        let _ = write!(s, "\"by_code\":{{{}}},", st.by_code.iter().map(|(k, v)| format!("{}:{}", js(k), v)).collect::<Vec<_>>().join(","));
        let mut pc: BTreeMap<String, u64> = BTreeMap::new();
        for ((p, c), v) in &st.phase_code {
            pc.insert(format!("{}/{}", PHASES[*p], c), *v);
        }
        let _ = write!(s, "\"phase_code\":{{{}}},", pc.iter().map(|(k, v)| format!("{}:{}", js(k), v)).collect::<Vec<_>>().join(","));
        let _ = write!(s, "\"notes\":{{{}}},", self.notes.iter().map(|(k, v)| format!("{}:{}", js(k), js(v))).collect::<Vec<_>>().join(","));
        let _ = write!(s, "\"violations\":[{}],", self.violations.iter().map(|(m, p)| format!("{{\"msg\":{},\"replay\":{}}}", js(m), js(p))).collect::<Vec<_>>().join(","));
        let _ = write!(s, "\"also\":{{{}}},", self.also.iter().map(|(k, (n, m))| format!("{}:{{\"count\":{},\"first\":{}}}", js(k), n, js(m))).collect::<Vec<_>>().join(","));
        let _ = write!(s, "\"harness_errors\":[{}]", self.harness_errors.iter().map(|x| js(x)).collect::<Vec<_>>().join(","));
        s.push('}');
        s
    }

    pub fn finish(self) -> i32 {
        println!("RESULT {}", self.to_json());
        if !self.violations.is_empty() {
            1
        } else if !self.harness_errors.is_empty() {
            for h in &self.harness_errors {
                println!("INCONCLUSIVE property={} reason=harness-error {}", self.prop, h);
            }
            2
        } else {
            0
        }
    }
}

pub fn js(s: &str) -> String {
    let mut o = String::with_capacity(s.len() + 2);
    o.push('"');
    for c in s.chars() {
        match c {
            '"' => o.push_str("\\\""),
            '\\' => o.push_str("\\\\"),
            '\n' => o.push_str("\\n"),
            '\t' => o.push_str("\\t"),
            c if (c as u32) < 0x20 => {
                let _ = write!(o, "\\u{:04x}", c as u32);
            }
            c => o.push(c),
        }
    }
    o.push('"');
    o
}

// ------------------------------------------------------------------------------------------
// command-line helpers
// ------------------------------------------------------------------------------------------

pub struct Args {
    pub map: BTreeMap<String, String>,
    pub pos: Vec<String>,
}

impl Args {
    pub fn parse(argv: &[String]) -> Args {
        let mut map = BTreeMap::new();
        let mut pos = Vec::new();
        let mut i = 0;
        while i < argv.len() {
            if let Some(k) = argv[i].strip_prefix("--") {
                if i + 1 < argv.len() && !argv[i + 1].starts_with("--") {
                    map.insert(k.to_string(), argv[i + 1].clone());
                    i += 2;
                } else {
                    map.insert(k.to_string(), "1".to_string());
                    i += 1;
                }
            } else {
                pos.push(argv[i].clone());
                i += 1;
            }
        }
        Args { map, pos }
    }
    pub fn u64(&self, k: &str, d: u64) -> u64 {
        self.map.get(k).and_then(|s| s.parse().ok()).unwrap_or(d)
    }
    pub fn str(&self, k: &str, d: &str) -> String {
        self.map.get(k).cloned().unwrap_or_else(|| d.to_string())
    }
    pub fn has(&self, k: &str) -> bool {
        self.map.contains_key(k)
    }
}

/// Map a property id to its 'static spelling.
pub fn static_prop(p: &str) -> &'static str {
    const ALL: [&str; 17] = ["C01", "C02", "C03", "C04", "C05", "C06", "C07", "C08", "C09", "C10", "C11", "C12", "C13", "C14", "C15", "C16", "C17"];
    ALL.iter().copied().find(|x| *x == p).unwrap_or("")
}

/// Human-readable rendering of an op list: runs of plain inserts are collapsed.
pub fn summarize_ops(ops: &[Op], max_items: usize) -> String {
    let mut items: Vec<String> = Vec::new();
    let mut i = 0;
    while i < ops.len() {
        if ops[i].code == Code::Insert {
            let mut j = i;
            while j < ops.len() && ops[j].code == Code::Insert {
                j += 1;
            }
            if j - i >= 4 {
                items.push(format!("Insert x{} (keys {}..{})", j - i, ops[i].k, ops[j - 1].k));
                i = j;
                continue;
            }
        }
        items.push(ops[i].encode());
        i += 1;
    }
    let n = items.len();
    if n > max_items {
        let head = items[..max_items / 3].join("; ");
        let tail = items[n - (max_items - max_items / 3)..].join("; ");
        format!("{head}; … ; {tail} ({} ops in all)", ops.len())
    } else {
        format!("{} ({} ops)", items.join("; "), ops.len())
    }
}
