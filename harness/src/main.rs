#![allow(clippy::too_many_arguments, clippy::type_complexity, clippy::new_without_default, dead_code)]
mod base;
mod chain;
mod exec;
#[cfg(feature = "ext")]
mod ext;
mod fault;
mod gen;
mod mon;
mod more;
mod ops;
mod run;
mod sets;
mod sweep;
mod work;

#[global_allocator]
static GLOBAL: base::CountingAlloc = base::CountingAlloc;

fn main() {
    base::install_panic_hook();
    base::ledger_reset();
    let argv: Vec<String> = std::env::args().skip(1).collect();
    let a = run::Args::parse(&argv);
    let cmd = a.pos.first().cloned().unwrap_or_default();
    if a.has("transcript-digest") {
        mon::TRANSCRIPT_DIGEST.store(true, std::sync::atomic::Ordering::Relaxed);
    }
    if a.has("noforget") {
        base::NOFORGET.store(true, std::sync::atomic::Ordering::Relaxed);
    }
    if cmd == "replay" {
        std::process::exit(work::replay(&a));
    }
    base::spawn_hang_watchdog(a.u64("hang-secs", 60));
    let prop = a.str("prop", "C01");
    let mut rep = run::Report::new(&prop, &cmd, &a.str("replays", "replays"));
    let t0 = std::time::Instant::now();
    match cmd.as_str() {
        "hist" => work::hist(&a, &mut rep),
        "sets" => sets::sets(&a, &mut rep),
        "setfault" => sets::setfault(&a, &mut rep),
        "ladder" => sweep::ladder(&a, &mut rep),
        "sweep" => sweep::sweep(&a, &mut rep),
        "prefix" => sweep::prefix_probe(&a, &mut rep),
        "chains" => sweep::chains(&a, &mut rep),
        "zst" => sweep::zst(&a, &mut rep),
        "sentinels" => sweep::sentinels(&a, &mut rep),
        "fault" => fault::fault(&a, &mut rep),
        "plain" => more::plain(&a, &mut rep),
        "iterstates" => more::iterstates(&a, &mut rep),
        "limits" => more::limits(&a, &mut rep),
        "clones" => more::clones(&a, &mut rep),
        "meta" => more::meta(&a, &mut rep),
        "dropbomb" => more::dropbomb(&a, &mut rep),
        "withcap" => more::withcap(&a, &mut rep),
        "noop" => more::noop(&a, &mut rep),
        #[cfg(feature = "ext")]
        "par" => ext::par(&a, &mut rep),
        #[cfg(feature = "ext")]
        "serde" => ext::serde(&a, &mut rep),
        _ => {
            eprintln!("unknown workload {cmd:?}");
            std::process::exit(2);
        }
    }
    rep.extra.insert("wall_ms".into(), t0.elapsed().as_millis() as u64);
    // After any violation the harness itself has leaked the (possibly inconsistent) map on
    // purpose. Leave without running exit handlers, so that a leak detector does not charge
    // that deliberate leak to the crate.
    let harness_leaked = !rep.violations.is_empty() || !rep.also.is_empty() || !rep.harness_errors.is_empty();
    let code = rep.finish();
    if harness_leaked && !cfg!(miri) {
        use std::io::Write as _;
        let _ = std::io::stdout().flush();
        extern "C" {
            fn _exit(code: i32) -> !;
        }
        unsafe { _exit(code) }
    }
    std::process::exit(code);
}
