//! Workloads (one per subcommand). Each fills a `Report`.

use crate::base::*;
use crate::gen::*;
use crate::run::*;

pub struct Shard {
    pub seed: u64,
    pub index: u64,
    pub count: u64,
    pub n: u64,
    pub scale: u64,
}

impl Shard {
    pub fn from_args(a: &Args) -> Shard {
        let sh = a.str("shard", "0/1");
        let (i, c) = sh.split_once('/').unwrap_or(("0", "1"));
        Shard { seed: a.u64("seed", 1), index: i.parse().unwrap_or(0), count: c.parse().unwrap_or(1), n: a.u64("n", 100), scale: a.u64("scale", 1) }
    }
    pub fn rng(&self, salt: u64) -> Rng {
        Rng::new(mix(self.seed ^ mix(self.index.wrapping_mul(0x1234_5678_9ABC_DEF1) ^ salt)))
    }
}

pub struct HistPlan {
    pub cfg: Cfg,
    pub keyspace: u64,
    pub tail: usize,
    pub max_len: usize,
}

pub fn plan(rng: &mut Rng, profile: Profile, small: bool) -> HistPlan {
    let elem = match profile {
        Profile::Work => *rng.pick(&[ElemKind::U64, ElemKind::TrInline, ElemKind::Big]),
        Profile::Drops | Profile::Clone => *rng.pick(&[ElemKind::TrInline, ElemKind::TrHeap, ElemKind::TrHeap]),
        Profile::Ub => *rng.pick(&[ElemKind::TrHeap, ElemKind::TrHeap, ElemKind::TrInline, ElemKind::U64]),
        _ => *rng.pick(&[ElemKind::U64, ElemKind::TrInline, ElemKind::TrInline, ElemKind::TrHeap, ElemKind::TrHeap, ElemKind::Big]),
    };
    let mode = match rng.below(100) {
        0..=39 => HMode::Good,
        40..=54 => HMode::Identity,
        55..=66 => HMode::SameGroup,
        67..=78 => HMode::SameTag,
        79..=86 => HMode::LowEntropy,
        _ => HMode::Const,
    };
    let slow = matches!(mode, HMode::Const | HMode::LowEntropy | HMode::SameGroup);
    let cap = *rng.pick(&[usize::MAX, usize::MAX, 0, 0, 1, 3, 7, 14, 28, 56, 112, 224]);
    let keyspace = *rng.pick(&[8u64, 40, 40, 200, 200, 1000, 20000]);
    let big = !small && !slow && rng.chance(1, 12);
    let tail = if small { 10 + rng.usize(50) } else if big { 300 + rng.usize(900) } else { 30 + rng.usize(270) };
    let max_len = if small { 70 } else if big { 3000 } else if slow { 140 } else { 500 };
    // under Miri every monitor step costs ~1 s if the full comparison runs each call: the
    // interpreter is there for undefined behaviour in the crate's own paths, so thin the model
    let (ce, cu) = if cfg!(miri) { (12, 3) } else if big { (8, 4) } else { (1, 1) };
    HistPlan {
        cfg: Cfg { elem, bh: Bh::new(mode, rng.below(4)), cap, check_every: ce, cursor_every: cu, focus: "", ledger_only: false },
        keyspace,
        tail,
        max_len,
    }
}

/// Generic random histories under one profile.
pub fn hist(a: &Args, rep: &mut Report) {
    let sh = Shard::from_args(a);
    let profile = Profile::parse(&a.str("profile", "general")).expect("profile");
    let small = cfg!(miri) || a.has("small");
    let want_transcript = a.has("transcript");
    // transcripts are appended history by history (and flushed), so that what a process wrote
    // before dying can still be compared
    let mut transcript_file = if want_transcript {
        Some(std::fs::File::create(a.str("transcript", "transcript.txt")).expect("create transcript"))
    } else {
        None
    };
    let mut rng = sh.rng(profile as u64);
    let focus = crate::run::static_prop(&rep.prop);
    rep.notes.insert("profile".into(), format!("{profile:?}"));
    let skip = a.u64("skip", 0);
    let progress = a.map.get("progress").cloned();
    let ledger_only = a.has("ledger-only");
    for h in 0..sh.n {
        let mut hr = rng.fork();
        if h < skip {
            continue;
        }
        if let Some(pf) = &progress {
            // lets the driver resume after this history if it kills the process
            let _ = std::fs::write(pf, h.to_string());
        }
        let mut p = plan(&mut hr, profile, small);
        p.cfg.focus = focus;
        if ledger_only {
            // lifetimes need tracked objects
            if p.cfg.elem == ElemKind::U64 || p.cfg.elem == ElemKind::Big {
                p.cfg.elem = ElemKind::TrHeap;
            }
            p.cfg.ledger_only = true;
        }
        let mut gen = Gen::new(hr.next(), profile, p.keyspace, p.tail, p.max_len);
        if let Some(f) = &mut transcript_file {
            use std::io::Write as _;
            let _ = writeln!(f, "## history {} {}", h, p.cfg.describe());
            let _ = f.flush();
        }
        let end_probe = matches!(profile, Profile::Headroom | Profile::Capacity | Profile::General) && hr.chance(1, 2);
        let out = run_generated(&p.cfg, &mut gen, want_transcript, end_probe);
        if let Some(f) = &mut transcript_file {
            use std::io::Write as _;
            let mut t = String::new();
            if let Some(tr) = &out.transcript {
                for l in tr {
                    t.push_str(l);
                    t.push('\n');
                }
            }
            match &out.viol {
                None => t.push_str("## end ok\n"),
                Some((v, at)) => t.push_str(&format!("## end VIOL {} at op {}: {}\n", v.prop, at, v.msg)),
            }
            let _ = f.write_all(t.as_bytes());
            let _ = f.flush();
        }
        let tag = format!("{}-{}-s{}-i{}-h{}", rep.workload, flavour(), sh.seed, sh.index, h);
        rep.bump(&format!("histories_{}", p.cfg.elem.name()), 1);
        rep.bump(&format!("histories_hasher_{:?}", p.cfg.bh.mode), 1);
        rep.record(&p.cfg, &tag, out, |s| s.hist_split && s.hist_old_hit);
    }
}

/// Replay one recorded history; prints VIOLATION again if it reproduces.
pub fn replay(a: &Args) -> i32 {
    let path = match a.pos.get(1) {
        Some(p) => p.clone(),
        None => {
            eprintln!("usage: gv replay <path>");
            return 2;
        }
    };
    let r = match read_replay(&path) {
        Some(r) => r,
        None => {
            eprintln!("cannot parse {path}");
            return 2;
        }
    };
    match r.kind.as_str() {
        "map" => match run_ops(&r.cfg, &r.ops) {
            Ok(_) => {
                println!("replay of {} ops: no violation", r.ops.len());
                0
            }
            Err((v, at)) => {
                println!("VIOLATION property={} replay={}", v.prop, path);
                println!("  detail: at op {}: {}", at, v.msg);
                1
            }
        },
        "set" => crate::sets::replay_set(&r, &path),
        "fault" => crate::fault::replay_fault(&r, &path),
        other => {
            println!("replay kind {other}: re-run the check with the seed recorded in the file");
            2
        }
    }
}
