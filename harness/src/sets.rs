//! Set monitor (C13): HashSet histories against a BTreeMap<value, object id> model, and the
//! pairwise set algebra against BTreeSet algebra.

use crate::base::*;
use crate::exec::{abbreviate, check_len, parse_debug_set, safe_len};
use crate::mon::*;
use crate::ops::*;
use crate::run::*;
use crate::viol;
use crate::work::Shard;
use griddle::verif::Location;
use griddle::HashSet;
use std::collections::{BTreeMap, BTreeSet};

pub struct SetMon<T: El> {
    pub set: HashSet<T, Bh>,
    pub model: BTreeMap<u64, u64>,
    pub bh: Bh,
    pub live_base: usize,
    pub nops: u64,
    pub calls: u64,
    pub split_calls: u64,
    pub old_hits: u64,
    pub by_code: BTreeMap<&'static str, u64>,
    /// enforce the per-call work bound (only when C02 is the property under check)
    pub work_rules: bool,
    /// enforce the release of the old table (only when C03 is the property under check)
    pub progress_rules: bool,
    pub max_hashes: u64,
    /// running digest of (op, len, capacity, split) after every call (C17 transcripts)
    pub trace: u64,
}

impl<T: El> SetMon<T> {
    pub fn new(cap: usize, bh: Bh) -> Self {
        let live_base = ledger_live();
        let set = if cap == usize::MAX { HashSet::with_hasher(bh) } else { HashSet::with_capacity_and_hasher(cap, bh) };
        SetMon { set, model: BTreeMap::new(), bh, live_base, nops: 0, calls: 0, split_calls: 0, old_hits: 0, by_code: BTreeMap::new(), work_rules: false, progress_rules: false, max_hashes: 0, trace: 0 }
    }

    pub fn locate(&self, k: u64) -> Location {
        let q = T::mk(k);
        self.set.verif_locate(&q)
    }

    pub fn step(&mut self, op: &Op) -> Res<()> {
        heartbeat();
        let _ = take_violations();
        let st0 = self.set.verif_state();
        if st0.old.is_some() {
            self.split_calls += 1;
            if op_has_key(op.code) && matches!(self.locate(op.k), Location::Old(_)) {
                self.old_hits += 1;
            }
        }
        let present0 = op_has_key(op.code) && self.model.contains_key(&op.k);
        let h0 = hash_count();
        let a0 = table_allocs();
        let r = catch(|| self.exec(op));
        let hashes = hash_count() - h0;
        let tallocs = table_allocs() - a0;
        if self.work_rules && r.as_ref().map_or(false, |x| x.is_ok()) {
            use Code::*;
            let rr = st0.r as u64;
            let st1 = self.set.verif_state();
            // (exact for lookups/removals, upper bound for calls that add the value)
            let (exact, bound): (Option<u64>, Option<u64>) = match op.code {
                SContains | SGet | SRemove | STake => (Some(1), None),
                SInsert | SReplace => (None, Some(1 + rr)),
                SGetOrInsert | SGetOrInsertOwned | SGetOrInsertWith => {
                    if present0 {
                        (Some(1), None)
                    } else {
                        (None, Some(2 + rr))
                    }
                }
                _ => (None, None),
            };
            if let Some(e) = exact {
                if hashes != e {
                    viol!("C02", "set {} performed {} hash computations, expected {}", op.encode(), hashes, e);
                }
                if st1 != st0 && matches!(op.code, SContains | SGet) {
                    viol!("C02", "set lookup {} changed the table state", op.encode());
                }
                if alloc_oracles_available() && tallocs != 0 {
                    viol!("C02", "set {} allocated a table", op.encode());
                }
            }
            if let Some(b) = bound {
                if hashes > b {
                    viol!("C02", "set {} performed {} hash computations, bound is {}", op.encode(), hashes, b);
                }
                if alloc_oracles_available() && tallocs > 1 {
                    viol!("C02", "set {} performed {} table allocations", op.encode(), tallocs);
                }
                let l0 = st0.old.as_ref().map_or(0, |o| o.table.len);
                let l1 = st1.old.as_ref().map_or(0, |o| o.table.len);
                if st0.old.is_some() && l0 > l1 + st0.r + 1 {
                    viol!("C02", "set {} moved {} elements (R = {})", op.encode(), l0 - l1, st0.r);
                }
            }
            self.max_hashes = self.max_hashes.max(hashes);
        }
        if self.progress_rules && r.as_ref().map_or(false, |x| x.is_ok()) {
            use Code::*;
            let st1 = self.set.verif_state();
            let l0 = st0.old.as_ref().map(|o| o.table.len);
            let l1 = st1.old.as_ref().map(|o| o.table.len);
            // the old table is released as soon as its last element is moved out or removed;
            // only retain may leave an emptied one behind, and only until the next adding call
            if let (Some(a), Some(0)) = (l0, l1) {
                if a > 0 && op.code != SRetain {
                    viol!("C03", "set {} took the last {} element(s) out of the old table but did not release it", op.encode(), a);
                }
            }
            let adds = matches!(op.code, SInsert | SReplace | SGetOrInsert | SGetOrInsertOwned | SGetOrInsertWith) && !present0;
            if adds && l1 == Some(0) {
                viol!("C03", "an empty old table is still allocated after the adding call set {}", op.encode());
            }
            if adds {
                if let Some(a) = l0 {
                    let want = a - a.min(st0.r);
                    if l1.unwrap_or(0) != want {
                        viol!("C03", "set {} left {} elements in the old table, {} were there and R = {}", op.encode(), l1.unwrap_or(0), a, st0.r);
                    }
                }
            }
            if matches!(op.code, SClear | SDrain | SIntoIter) && st1.old.is_some() {
                viol!("C03", "old table still allocated after set {}", op.encode());
            }
        }
        match r {
            Err(p) => {
                if p.contains("harness/src") {
                    viol!(HARNESS, "harness panic in {}: {p}", op.encode());
                }
                crate::viol_op!(op.code, "undocumented panic in {}: {p}", op.encode());
            }
            Ok(Err(v)) => return Err(v),
            Ok(Ok(())) => {}
        }
        self.nops += 1;
        self.calls += 1;
        *self.by_code.entry(op.code.name()).or_default() += 1;
        if let Some((p, m)) = take_violations().into_iter().next() {
            viol!(p, "{m} during {}", op.encode());
        }
        self.trace = mix(self.trace ^ digest(op.words().chain([self.set.len() as u64, self.set.capacity() as u64, self.set.verif_state().old.is_some() as u64])));
        self.check(op)
    }

    fn check(&mut self, op: &Op) -> Res<()> {
        let prop = class_prop(op.code);
        if self.set.len() != self.model.len() || self.set.is_empty() != self.model.is_empty() {
            viol!(prop, "len() = {} / is_empty() = {} but the model holds {} after {}", self.set.len(), self.set.is_empty(), self.model.len(), op.encode());
        }
        if self.set.capacity() < self.set.len() {
            viol!("C04", "set capacity() {} < len() {} after {}", self.set.capacity(), self.set.len(), op.encode());
        }
        let st = self.set.verif_state();
        if let Some(o) = &st.old {
            if o.cursor_remaining != o.table.len {
                return Err(Viol {
                    extra: Vec::new(),
                    prop: "C05",
                    more: if o.cursor_remaining > o.table.len { cursor_more(op.code) } else { &[] },
                    msg: format!("cached iterator believes {} elements remain but the old table holds {} after {}", o.cursor_remaining, o.table.len, op.encode()),
                });
            }
            if std::mem::size_of::<T>() != 0 {
                if let Some((mut c, mut f)) = self.set.verif_cursor() {
                    c.sort_unstable();
                    f.sort_unstable();
                    if c != f {
                        viol!("C05", "cached iterator would visit {:?}, old table holds {:?} after {}", c, f, op.encode());
                    }
                }
            }
        }
        let mut got: Vec<(u64, u64)> = self.set.iter().map(|t| (t.val(), t.id())).collect();
        got.sort_unstable();
        let want: Vec<(u64, u64)> = self.model.iter().map(|(a, b)| (*a, *b)).collect();
        if got != want {
            viol!(prop, "set contents {:?} differ from the model {:?} after {}", abbreviate(&got), abbreviate(&want), op.encode());
        }
        if T::TRACKED {
            let live = ledger_live();
            if live != self.live_base + self.model.len() {
                viol!("C06", "ledger: {} live objects after {}, expected {}", live, op.encode(), self.live_base + self.model.len());
            }
        }
        if let Some((p, m)) = take_violations().into_iter().next() {
            viol!(p, "{m} while checking after {}", op.encode());
        }
        Ok(())
    }

    fn exec(&mut self, op: &Op) -> Res<()> {
        use Code::*;
        let k = op.k;
        let mismatch = |what: &str, got: String, want: String| -> Res<()> {
            if got != want {
                viol!("C13", "{what}({k}): got {got}, reference set says {want}");
            }
            Ok(())
        };
        match op.code {
            SInsert => {
                let t = T::mk(k);
                let id = t.id();
                let r = self.set.insert(t);
                let want = !self.model.contains_key(&k);
                if want {
                    self.model.insert(k, id);
                }
                mismatch("insert", r.to_string(), want.to_string())?;
            }
            SReplace => {
                let t = T::mk(k);
                let id = t.id();
                let r = self.set.replace(t).map(|o| (o.val(), o.id()));
                let want = self.model.insert(k, id).map(|o| (k, o));
                mismatch("replace", format!("{r:?}"), format!("{want:?}"))?;
            }
            SRemove => {
                let q = T::mk(k);
                let r = self.set.remove(&q);
                let want = self.model.remove(&k).is_some();
                mismatch("remove", r.to_string(), want.to_string())?;
            }
            STake => {
                let q = T::mk(k);
                let r = self.set.take(&q).map(|o| (o.val(), o.id()));
                let want = self.model.remove(&k).map(|o| (k, o));
                mismatch("take", format!("{r:?}"), format!("{want:?}"))?;
            }
            SGet => {
                let q = T::mk(k);
                let r = self.set.get(&q).map(|o| (o.val(), o.id()));
                let want = self.model.get(&k).map(|o| (k, *o));
                mismatch("get", format!("{r:?}"), format!("{want:?}"))?;
            }
            SContains => {
                let q = T::mk(k);
                let r = self.set.contains(&q);
                mismatch("contains", r.to_string(), self.model.contains_key(&k).to_string())?;
            }
            SGetOrInsert => {
                let t = T::mk(k);
                let id = t.id();
                let r = self.set.get_or_insert(t);
                let got = (r.val(), r.id());
                let want = (k, *self.model.entry(k).or_insert(id));
                mismatch("get_or_insert", format!("{got:?}"), format!("{want:?}"))?;
            }
            SGetOrInsertOwned => {
                // needs ToOwned<Owned = T>: T: Clone gives it for &T
                let q = T::mk(k);
                let r = self.set.get_or_insert_owned(&q);
                let got = (r.val(), r.id());
                let present = self.model.get(&k).copied();
                match present {
                    Some(id) => mismatch("get_or_insert_owned", format!("{got:?}"), format!("{:?}", (k, id)))?,
                    None => {
                        if got.0 != k || (T::TRACKED && got.1 == q.id()) {
                            viol!("C13", "get_or_insert_owned({k}) returned {got:?}");
                        }
                        self.model.insert(k, got.1);
                    }
                }
            }
            SGetOrInsertWith => {
                let q = T::mk(k);
                let made = std::cell::Cell::new(0u64);
                // op.v = 1: the closure builds a value that is NOT equal to the probe (allowed:
                // it is stored as what it is, a previously unseen value)
                let other = if op.v == 1 { Some((1u64 << 50) + self.nops) } else { None };
                let r = self.set.get_or_insert_with(&q, |qq| {
                    tick(Cb::Closure);
                    let t = T::mk(other.unwrap_or(qq.val()));
                    made.set(t.id());
                    t
                });
                let got = (r.val(), r.id());
                if let (Some(nk), None) = (other, self.model.get(&k).copied()) {
                    mismatch("get_or_insert_with (closure value differs from the probe)", format!("{got:?}"), format!("{:?}", (nk, made.get())))?;
                    self.model.insert(nk, made.get());
                    drop(q);
                    return Ok(());
                }
                match self.model.get(&k).copied() {
                    Some(id) => {
                        if made.get() != 0 {
                            viol!("C13", "get_or_insert_with({k}) ran its closure although the value is present");
                        }
                        mismatch("get_or_insert_with", format!("{got:?}"), format!("{:?}", (k, id)))?
                    }
                    None => {
                        mismatch("get_or_insert_with", format!("{got:?}"), format!("{:?}", (k, made.get())))?;
                        self.model.insert(k, made.get());
                    }
                }
            }
            SRetain => {
                let pred = Pred::parse(&op.list);
                let mut log = Vec::new();
                self.set.retain(|t| {
                    visited_push(t.val());
                    tick(Cb::Closure);
                    log.push((t.val(), t.id()));
                    pred.eval(t.val())
                });
                log.sort_unstable();
                let want: Vec<(u64, u64)> = self.model.iter().map(|(a, b)| (*a, *b)).collect();
                if log != want {
                    viol!("C09", "set retain called its predicate on {:?}, the set held {:?}", abbreviate(&log), abbreviate(&want));
                }
                self.model.retain(|a, _| pred.eval(*a));
            }
            SDrain => {
                let total = self.model.len();
                let want = std::mem::take(&mut self.model);
                let mut seen = BTreeSet::new();
                let mut it = self.set.drain();
                let mut n = 0usize;
                loop {
                    check_len("set drain", safe_len(&it), it.size_hint(), total - n)?;
                    if n as u64 >= op.n {
                        break;
                    }
                    match it.next() {
                        None => break,
                        Some(t) => {
                            n += 1;
                            if want.get(&t.val()) != Some(&t.id()) || !seen.insert(t.val()) {
                                viol!("C08", "set drain yielded ({}, {}) unexpectedly", t.val(), t.id());
                            }
                        }
                    }
                }
                if op.v == 1 {
                    for (a, id) in &want {
                        if !seen.contains(a) {
                            ledger_forget(*id);
                        }
                    }
                    std::mem::forget(it);
                } else {
                    drop(it);
                }
                if op.n == MAXN && seen.len() != want.len() {
                    viol!("C08", "set drain yielded {} of {} elements", seen.len(), want.len());
                }
            }
            SDrainFilter => {
                let pred = Pred::parse(&op.list);
                let before = self.model.clone();
                let forget = op.k == 1;
                let mut yielded = Vec::new();
                {
                    let mut it = self.set.drain_filter(|t| {
                        tick(Cb::Closure);
                        pred.eval(t.val())
                    });
                    let mut n = 0;
                    while n < op.n {
                        match it.next() {
                            None => break,
                            Some(t) => {
                                n += 1;
                                yielded.push((t.val(), t.id()));
                            }
                        }
                    }
                    if forget {
                        std::mem::forget(it);
                    } else {
                        drop(it);
                    }
                }
                let ys: BTreeSet<u64> = yielded.iter().map(|y| y.0).collect();
                if ys.len() != yielded.len() {
                    viol!("C09", "set drain_filter yielded an element twice");
                }
                for y in &yielded {
                    if before.get(&y.0) != Some(&y.1) || !pred.eval(y.0) {
                        viol!("C09", "set drain_filter yielded ({}, {}) unexpectedly", y.0, y.1);
                    }
                }
                if forget {
                    self.model.retain(|a, _| !ys.contains(a));
                } else {
                    if op.n == MAXN && yielded.len() != before.keys().filter(|a| pred.eval(**a)).count() {
                        viol!("C09", "set drain_filter yielded {} elements, {} match", yielded.len(), before.keys().filter(|a| pred.eval(**a)).count());
                    }
                    self.model.retain(|a, _| !pred.eval(*a));
                }
            }
            SExtend => {
                let items: Vec<T> = op.list.iter().map(|a| T::mk(*a)).collect();
                let ids: Vec<u64> = items.iter().map(|t| t.id()).collect();
                self.set.extend(items);
                for (a, id) in op.list.iter().zip(ids) {
                    self.model.entry(*a).or_insert(id);
                }
            }
            SClear => {
                self.set.clear();
                self.model.clear();
            }
            SIter => {
                let total = self.model.len();
                let mut it = self.set.iter();
                let mut n = 0;
                let mut got = Vec::new();
                loop {
                    check_len("set iter", safe_len(&it), it.size_hint(), total - n)?;
                    match it.next() {
                        None => break,
                        Some(t) => {
                            n += 1;
                            got.push((t.val(), t.id()));
                        }
                    }
                }
                if it.next().is_some() || it.next().is_some() {
                    viol!("C08", "set iter yielded after None");
                }
                got.sort_unstable();
                let want: Vec<(u64, u64)> = self.model.iter().map(|(a, b)| (*a, *b)).collect();
                if got != want {
                    viol!("C08", "set iter yielded {:?}, set holds {:?}", abbreviate(&got), abbreviate(&want));
                }
                let dbg = format!("{:?}", self.set);
                match parse_debug_set(&dbg) {
                    Some(mut p) => {
                        p.sort_unstable();
                        let w: Vec<u64> = self.model.keys().copied().collect();
                        if p != w {
                            viol!("C14", "set Debug lists {:?}, holds {:?}", abbreviate(&p), abbreviate(&w));
                        }
                    }
                    None => viol!("C14", "set Debug output is not a set literal"),
                }
            }
            SIntoIter => {
                let bh = self.bh;
                let set = std::mem::replace(&mut self.set, HashSet::with_hasher(bh));
                let want = std::mem::take(&mut self.model);
                let total = want.len();
                let mut it = set.into_iter();
                let mut n = 0usize;
                let mut seen = BTreeSet::new();
                loop {
                    check_len("set into_iter", safe_len(&it), it.size_hint(), total - n)?;
                    if n as u64 >= op.n {
                        break;
                    }
                    match it.next() {
                        None => break,
                        Some(t) => {
                            n += 1;
                            if want.get(&t.val()) != Some(&t.id()) || !seen.insert(t.val()) {
                                viol!("C08", "set into_iter yielded ({}, {}) unexpectedly", t.val(), t.id());
                            }
                        }
                    }
                }
                drop(it);
                if op.n == MAXN && seen.len() != total {
                    viol!("C08", "set into_iter yielded {} of {} elements", seen.len(), total);
                }
            }
            SReserve => {
                let len = self.set.len();
                self.set.reserve(op.n as usize);
                if self.set.capacity() < len + op.n as usize {
                    viol!("C10", "set reserve({}) left capacity {} < {}", op.n, self.set.capacity(), len + op.n as usize);
                }
            }
            SShrinkToFit => self.set.shrink_to_fit(),
            SCloneSwap => {
                let c = self.set.clone();
                if !(c == self.set) || !(self.set == c) {
                    viol!("C11", "set clone != source");
                }
                let mut nm = BTreeMap::new();
                for t in c.iter() {
                    match self.model.get(&t.val()) {
                        Some(id) if !T::TRACKED || *id != t.id() => {
                            nm.insert(t.val(), t.id());
                        }
                        other => viol!("C11", "set clone holds ({}, {}), model {:?}", t.val(), t.id(), other),
                    }
                }
                if nm.len() != self.model.len() {
                    viol!("C11", "set clone has {} elements, source {}", nm.len(), self.model.len());
                }
                self.set = c;
                self.model = nm;
            }
            _ => viol!(HARNESS, "map op {} given to the set monitor", op.encode()),
        }
        Ok(())
    }

    pub fn finish(self) -> Res<()> {
        let SetMon { set, live_base, .. } = self;
        let r = catch(move || drop(set));
        if let Err(p) = r {
            viol!("C06", "panic while dropping the set: {p}");
        }
        if let Some((p, m)) = take_violations().into_iter().next() {
            viol!(p, "{m} while dropping the set");
        }
        if T::TRACKED && ledger_live() != live_base {
            viol!("C06", "{} objects still live after the set was dropped", ledger_live() - live_base.min(ledger_live()));
        }
        Ok(())
    }
}

// ------------------------------------------------------------------------------------------
// generation
// ------------------------------------------------------------------------------------------

fn set_op<T: El>(rng: &mut Rng, mon: &SetMon<T>, keyspace: u64, max_len: usize, noforget: bool) -> Op {
    use Code::*;
    let table: &[(Code, u32)] = &[
        (SInsert, 30), (SReplace, 8), (SRemove, 10), (STake, 6), (SGet, 5), (SContains, 5), (SGetOrInsert, 6), (SGetOrInsertOwned, 5), (SGetOrInsertWith, 5),
        (SRetain, 3), (SDrain, 1), (SDrainFilter, 3), (SExtend, 4), (SClear, 1), (SIter, 2), (SIntoIter, 1), (SReserve, 2), (SShrinkToFit, 2), (SCloneSwap, 1),
    ];
    let total: u32 = table.iter().map(|x| x.1).sum();
    let mut roll = rng.below(total as u64) as u32;
    let mut code = SInsert;
    for (c, w) in table {
        if roll < *w {
            code = *c;
            break;
        }
        roll -= w;
    }
    if mon.model.len() >= max_len && matches!(code, SInsert | SExtend | SGetOrInsert | SGetOrInsertOwned | SGetOrInsertWith) {
        code = SRemove;
    }
    // key choice biased to the old table while split
    let split = mon.set.verif_state().old.is_some();
    let mut key = rng.below(keyspace);
    if !mon.model.is_empty() && rng.chance(7, 10) {
        let lo = *mon.model.keys().next().unwrap();
        let hi = *mon.model.keys().next_back().unwrap();
        for _ in 0..10 {
            let pivot = lo + rng.below(hi - lo + 1);
            if let Some((k, _)) = mon.model.range(pivot..).next() {
                key = *k;
                if !split || matches!(mon.locate(key), Location::Old(_)) || rng.chance(1, 4) {
                    break;
                }
            }
        }
    }
    if matches!(code, SInsert | SGetOrInsert | SGetOrInsertOwned | SGetOrInsertWith) && rng.chance(3, 5) {
        key = rng.below(keyspace.max(64) * 4);
    }
    let pred = |rng: &mut Rng| match rng.below(5) {
        0 => pred_none(),
        1 => pred_all(),
        2 => {
            let ks: Vec<u64> = mon.model.keys().copied().filter(|k| matches!(mon.locate(*k), Location::Old(_))).collect();
            pred_keys(&ks)
        }
        _ => {
            let m = 2 + rng.below(3);
            pred_mod(m, rng.below(m))
        }
    };
    let prefix = |rng: &mut Rng| if rng.chance(1, 2) { MAXN } else { rng.below(mon.model.len() as u64 + 1) };
    match code {
        SRetain => Op::new(code).with_list(pred(rng)),
        // (forgetting leaks what the iterator still owns: only on small sets)
        SDrain => Op::n(code, prefix(rng)).with_v((!noforget && mon.model.len() <= 64 && rng.chance(1, 6)) as u64),
        SDrainFilter => Op::n(code, prefix(rng)).with_list(pred(rng)).with_k((!noforget && mon.model.len() <= 64 && rng.chance(1, 6)) as u64),
        SIntoIter => Op::n(code, prefix(rng)),
        SExtend => {
            let n = rng.usize(10);
            Op::new(code).with_list((0..n).map(|_| rng.below(keyspace * 2)).collect())
        }
        SReserve => Op::n(code, rng.below(100)),
        SGetOrInsertWith => Op::k(code, key).with_v(rng.chance(1, 4) as u64),
        _ => Op::k(code, key),
    }
}

fn run_set_ops<T: El>(cfg: &Cfg, ops: &[Op]) -> Result<(), (Viol, usize)> {
    ledger_reset();
    let mut mon: SetMon<T> = SetMon::new(cfg.cap, cfg.bh);
    mon.work_rules = cfg.focus == "C02";
    mon.progress_rules = cfg.focus == "C03" || cfg.focus.is_empty();
    for (i, op) in ops.iter().enumerate() {
        if let Err(v) = mon.step(op) {
            std::mem::forget(mon);
            return Err((v, i + 1));
        }
    }
    mon.finish().map_err(|v| (v, ops.len()))
}

pub fn run_set(cfg: &Cfg, ops: &[Op]) -> Result<(), (Viol, usize)> {
    match cfg.elem {
        ElemKind::U64 => run_set_ops::<u64>(cfg, ops),
        ElemKind::TrInline => run_set_ops::<Tr<false>>(cfg, ops),
        ElemKind::TrHeap => run_set_ops::<Tr<true>>(cfg, ops),
        ElemKind::Big => run_set_ops::<Big>(cfg, ops),
    }
}

pub fn replay_set(r: &Replay, path: &str) -> i32 {
    match run_set(&r.cfg, &r.ops) {
        Ok(()) => {
            println!("replay of {} set ops: no violation", r.ops.len());
            0
        }
        Err((v, at)) => {
            println!("VIOLATION property={} replay={}", v.prop, path);
            println!("  detail: at op {}: {}", at, v.msg);
            1
        }
    }
}

fn set_history<T: El>(rng: &mut Rng, cfg: &Cfg, keyspace: u64, n: usize, max_len: usize, noforget: bool) -> (Vec<Op>, Result<(u64, u64, u64, u64), Viol>) {
    ledger_reset();
    let mut mon: SetMon<T> = SetMon::new(cfg.cap, cfg.bh);
    mon.work_rules = cfg.focus == "C02";
    mon.progress_rules = cfg.focus == "C03" || cfg.focus.is_empty();
    let mut ops = Vec::new();
    for _ in 0..n {
        let op = set_op(rng, &mon, keyspace, max_len, noforget);
        let r = mon.step(&op);
        ops.push(op);
        if let Err(v) = r {
            std::mem::forget(mon);
            return (ops, Err(v));
        }
    }
    let c = (mon.calls, mon.split_calls, mon.old_hits, mon.trace);
    match mon.finish() {
        Ok(()) => (ops, Ok(c)),
        Err(v) => (ops, Err(v)),
    }
}

/// Build a set with the given contents, steering it into a resize phase chosen by `phase`:
/// 0 = built with exact capacity (no resize), 1 = grown incrementally (whatever phase results),
/// 2 = filled until a resize is in flight, 3 = like 2 and then part of the old table removed again.
pub fn build_set<T: El>(contents: &BTreeSet<u64>, bh: Bh, phase: u64, rng: &mut Rng) -> (HashSet<T, Bh>, bool) {
    let mut s: HashSet<T, Bh> = match phase {
        0 => HashSet::with_capacity_and_hasher(contents.len(), bh),
        _ => HashSet::with_hasher(bh),
    };
    let mut order: Vec<u64> = contents.iter().copied().collect();
    for i in (1..order.len()).rev() {
        let j = rng.usize(i + 1);
        order.swap(i, j);
    }
    if phase == 2 || phase == 3 {
        // noise elements keep a resize in flight at the end
        let mut noise = Vec::new();
        for v in order.iter() {
            s.insert(T::mk(*v));
        }
        let mut extra = 0u64;
        while s.verif_state().old.is_none() && extra < 4096 {
            extra += 1;
            let v = (1u64 << 50) + extra;
            s.insert(T::mk(v));
            noise.push(v);
        }
        // remove the noise again (removals never carry, so the split stays unless the old
        // table is emptied by them)
        for v in noise {
            s.remove(&T::mk(v));
        }
        if phase == 3 {
            // remove and re-insert some real elements that sit in the old table
            let olds: Vec<u64> = order.iter().copied().filter(|v| matches!(s.verif_locate(&T::mk(*v)), Location::Old(_))).take(3).collect();
            for v in olds {
                s.remove(&T::mk(v));
                s.insert(T::mk(v));
            }
        }
    } else {
        for v in order {
            s.insert(T::mk(v));
        }
        if phase == 4 && !s.is_empty() {
            // resize started by reserve: the main table is empty, everything sits in the old one
            let mut extra = 0u64;
            let mut noise = Vec::new();
            while s.verif_state().old.is_some() && extra < 4096 {
                extra += 1;
                let v = (1u64 << 51) + extra;
                s.insert(T::mk(v));
                noise.push(v);
            }
            for v in noise {
                s.remove(&T::mk(v));
            }
            let free = s.capacity() - s.len();
            s.reserve(free + 1);
        }
    }
    let split = s.verif_state().old.as_ref().map_or(false, |o| o.table.len > 0);
    (s, split)
}

fn algebra_pair<T: El>(a: &BTreeSet<u64>, b: &BTreeSet<u64>, sa: &HashSet<T, Bh>, sb: &HashSet<T, Bh>) -> Res<()> {
    let collect = |it: &mut dyn Iterator<Item = &T>, what: &str| -> Res<BTreeSet<u64>> {
        // walk it once with a clone-free two-pass trick: the hints are recorded on the way and
        // judged when the number of remaining elements is known
        let mut out = BTreeSet::new();
        let mut hints: Vec<(usize, Option<usize>)> = vec![it.size_hint()];
        while let Some(t) = it.next() {
            if !out.insert(t.val()) {
                viol!("C13", "{what} yielded {} twice", t.val());
            }
            hints.push(it.size_hint());
        }
        let total = out.len();
        for (i, (lo, hi)) in hints.iter().enumerate() {
            let left = total - i.min(total);
            if *lo > left || hi.map_or(false, |h| h < left) {
                viol!("C13", "{what}: size_hint() = ({lo}, {hi:?}) with {left} elements still to come");
            }
        }
        Ok(out)
    };
    let chk = |got: BTreeSet<u64>, want: BTreeSet<u64>, what: &str| -> Res<()> {
        if got != want {
            viol!("C13", "{what} = {:?}, mathematically {:?} (A = {:?}, B = {:?})", abbreviate(&got.iter().collect::<Vec<_>>()), abbreviate(&want.iter().collect::<Vec<_>>()), abbreviate(&a.iter().collect::<Vec<_>>()), abbreviate(&b.iter().collect::<Vec<_>>()));
        }
        Ok(())
    };
    let un: BTreeSet<u64> = a.union(b).copied().collect();
    let int: BTreeSet<u64> = a.intersection(b).copied().collect();
    let dif: BTreeSet<u64> = a.difference(b).copied().collect();
    let sym: BTreeSet<u64> = a.symmetric_difference(b).copied().collect();
    chk(collect(&mut sa.union(sb), "union")?, un.clone(), "union")?;
    chk(collect(&mut sa.intersection(sb), "intersection")?, int.clone(), "intersection")?;
    chk(collect(&mut sa.difference(sb), "difference")?, dif.clone(), "difference")?;
    chk(collect(&mut sa.symmetric_difference(sb), "symmetric_difference")?, sym.clone(), "symmetric_difference")?;
    // cloned lazy iterators continue independently
    let mut u = sa.union(sb);
    let first = u.next().map(|t| t.val());
    let rest: Vec<u64> = u.clone().map(|t| t.val()).collect();
    let rest2: Vec<u64> = u.map(|t| t.val()).collect();
    if rest != rest2 || first.iter().count() + rest.len() != un.len() {
        viol!("C13", "a cloned union iterator diverged from the original");
    }
    // operator forms build owned sets
    let o: HashSet<T, Bh> = sa | sb;
    chk(o.iter().map(|t| t.val()).collect(), un, "A | B")?;
    if o.len() != a.union(b).count() {
        viol!("C13", "|A | B| wrong");
    }
    let o: HashSet<T, Bh> = sa & sb;
    chk(o.iter().map(|t| t.val()).collect(), int.clone(), "A & B")?;
    let o: HashSet<T, Bh> = sa ^ sb;
    chk(o.iter().map(|t| t.val()).collect(), sym, "A ^ B")?;
    let o: HashSet<T, Bh> = sa - sb;
    chk(o.iter().map(|t| t.val()).collect(), dif, "A - B")?;
    drop(o);
    let preds = [
        ("is_subset", sa.is_subset(sb), a.is_subset(b)),
        ("is_superset", sa.is_superset(sb), a.is_superset(b)),
        ("is_disjoint", sa.is_disjoint(sb), a.is_disjoint(b)),
        ("==", sa == sb, a == b),
        ("!=", sa != sb, a != b),
    ];
    for (n, got, want) in preds {
        if got != want {
            viol!("C13", "{n} = {got}, mathematically {want} (A = {:?}, B = {:?})", abbreviate(&a.iter().collect::<Vec<_>>()), abbreviate(&b.iter().collect::<Vec<_>>()));
        }
    }
    Ok(())
}

fn algebra_case<T: El>(rng: &mut Rng, rep: &mut Report, tag: &str) {
    heartbeat();
    ledger_reset();
    let _ = take_violations();
    // sizes across several doublings, every overlap pattern
    let sizes = [0u64, 1, 2, 3, 4, 7, 8, 14, 15, 16, 28, 29, 30, 31, 40, 57, 60, 63, 100, 113, 120, 126, 230];
    let na = *rng.pick(&sizes);
    let nb = if cfg!(miri) { *rng.pick(&sizes[..14]) } else { *rng.pick(&sizes) };
    let na = if cfg!(miri) { na.min(31) } else { na };
    let pattern = rng.below(5);
    let universe = 3 * (na + nb) + 8;
    let mut a = BTreeSet::new();
    let mut b = BTreeSet::new();
    while (a.len() as u64) < na {
        a.insert(rng.below(universe));
    }
    match pattern {
        0 => {
            while (b.len() as u64) < nb {
                let v = universe + rng.below(universe);
                b.insert(v);
            }
        }
        1 => b = a.clone(),
        2 => {
            b = a.clone();
            while (b.len() as u64) < na + nb {
                b.insert(rng.below(2 * universe));
            }
        }
        3 => {
            for v in a.iter() {
                if (b.len() as u64) < nb.min(na) && rng.chance(1, 2) {
                    b.insert(*v);
                }
            }
        }
        _ => {
            while (b.len() as u64) < nb {
                b.insert(rng.below(universe));
            }
        }
    }
    let bha = Bh::new(*rng.pick(&[HMode::Good, HMode::Good, HMode::Identity, HMode::SameTag, HMode::OneShot]), rng.below(8));
    let bhb = Bh::new(*rng.pick(&[HMode::Good, HMode::Good, HMode::Identity, HMode::SameTag, HMode::OneShot]), rng.below(8));
    let (pa, pb) = (rng.below(5), rng.below(5));
    let (sa, split_a) = build_set::<T>(&a, bha, pa, rng);
    let (sb, split_b) = build_set::<T>(&b, bhb, pb, rng);
    rep.evaluations += 1;
    rep.bump("algebra_pairs", 1);
    if split_a {
        rep.bump("algebra_operand_a_split", 1);
    }
    if split_b {
        rep.bump("algebra_operand_b_split", 1);
    }
    rep.bump(&format!("algebra_pattern_{}", ["disjoint", "equal", "a_subset_b", "b_subset_a", "partial"][pattern as usize]), 1);
    let body = [
        ("kind", "algebra".to_string()),
        ("a", format!("{a:?}")),
        ("b", format!("{b:?}")),
        ("hashers", format!("{bha:?} {bhb:?}")),
        ("phases", format!("{pa} {pb}")),
    ];
    let r = catch(|| {
        // both argument orders: intersection/union pick the smaller/larger side
        algebra_pair(&a, &b, &sa, &sb)?;
        algebra_pair(&b, &a, &sb, &sa)?;
        // a set with itself (the very same object on both sides)
        algebra_pair(&a, &a, &sa, &sa)?;
        algebra_pair(&b, &b, &sb, &sb)?;
        // HashSet::clone_from (C11): destinations in B's phase and with spare room, B's hasher
        for roomy in [false, true] {
            let mut d: HashSet<T, Bh> = if roomy {
                let mut x = HashSet::with_capacity_and_hasher(2 * a.len() + 10, bhb);
                for v in b.iter().take(3) {
                    x.insert(T::mk(*v));
                }
                x
            } else {
                sb.clone()
            };
            d.clone_from(&sa);
            let same = d == sa && sa == d && d.len() == a.len() && a.iter().all(|v| d.contains(&T::mk(*v))) && d.iter().all(|t| a.contains(&t.val()));
            if !same {
                viol!("C11", "HashSet::clone_from: the destination differs from the source (roomy destination: {roomy})");
            }
            if d.hasher() != sa.hasher() {
                viol!("C11", "HashSet::clone_from did not adopt the source's hasher (roomy destination: {roomy})");
            }
            // independent: changing the clone leaves the source alone
            d.insert(T::mk(u64::MAX - 7));
            if sa.contains(&T::mk(u64::MAX - 7)) || sa.len() != a.len() {
                viol!("C11", "a change to the clone_from destination shows in the source set");
            }
        }
        Ok(())
    });
    match r {
        Err(p) => {
            rep.direct_violation("C13", tag, &format!("panic in set algebra: {p}"), &body);
        }
        Ok(Err(v)) => {
            rep.direct_violation(v.prop, tag, &v.msg, &body);
        }
        Ok(Ok(())) => {
            if (split_a || split_b) && (!a.is_empty() || !b.is_empty()) {
                rep.nontrivial.insert(digest(a.iter().copied().chain([u64::MAX]).chain(b.iter().copied()).chain([pa, pb])));
                rep.sample(format!("algebra A={:?} (phase {pa}, split {split_a}) B={:?} (phase {pb}, split {split_b})", abbreviate(&a.iter().collect::<Vec<_>>()), abbreviate(&b.iter().collect::<Vec<_>>())));
            }
        }
    }
    drop(sa);
    drop(sb);
    if let Some((p, m)) = take_violations().into_iter().next() {
        rep.direct_violation(p, tag, &m, &body);
    }
    if T::TRACKED && ledger_live() != 0 {
        rep.direct_violation("C06", tag, &format!("{} objects leaked by set algebra", ledger_live()), &body);
    }
}

/// C13 workload: set histories + pairwise algebra.
pub fn sets(a: &Args, rep: &mut Report) {
    let sh = Shard::from_args(a);
    let mut rng = sh.rng(13);
    let small = cfg!(miri);
    // forgetting an iterator leaks by design: keep it out of runs watched by a leak detector
    let noforget = a.has("noforget") || cfg!(miri);
    let skip = a.u64("skip", 0);
    let progress = a.map.get("progress").cloned();
    // C17: one summary line per history (with a digest of every call's outcome) and per algebra case
    let mut tfile = if a.has("transcript") { Some(std::fs::File::create(a.str("transcript", "t.txt")).expect("create transcript")) } else { None };
    for h in 0..sh.n {
        let mut hr = rng.fork();
        if h < skip {
            continue;
        }
        if let Some(pf) = &progress {
            let _ = std::fs::write(pf, h.to_string());
        }
        let elem = *hr.pick(&[ElemKind::U64, ElemKind::TrInline, ElemKind::TrHeap]);
        let mode = *hr.pick(&[HMode::Good, HMode::Good, HMode::Identity, HMode::SameGroup, HMode::SameTag, HMode::LowEntropy, HMode::Const, HMode::OneShot]);
        let slow = matches!(mode, HMode::Const | HMode::LowEntropy | HMode::SameGroup);
        let cfg = Cfg { elem, bh: Bh::new(mode, hr.below(4)), cap: *hr.pick(&[usize::MAX, 0, 3, 7, 14, 28]), check_every: 1, cursor_every: 1, focus: static_prop(&rep.prop), ledger_only: false };
        let keyspace = *hr.pick(&[8u64, 40, 200, 1000]);
        let n = if small { 20 + hr.usize(40) } else { 40 + hr.usize(260) };
        let max_len = if small { 60 } else if slow { 140 } else { 500 };
        let (ops, res) = match elem {
            ElemKind::U64 => set_history::<u64>(&mut hr, &cfg, keyspace, n, max_len, noforget),
            ElemKind::TrInline => set_history::<Tr<false>>(&mut hr, &cfg, keyspace, n, max_len, noforget),
            ElemKind::TrHeap => set_history::<Tr<true>>(&mut hr, &cfg, keyspace, n, max_len, noforget),
            ElemKind::Big => set_history::<Big>(&mut hr, &cfg, keyspace, n, max_len, noforget),
        };
        rep.evaluations += 1;
        let tag = format!("sets-{}-s{}-i{}-h{}", flavour(), sh.seed, sh.index, h);
        #[allow(unused_assignments)]
        let mut tline = String::new();
        if let Some(f) = &mut tfile {
            use std::io::Write as _;
            let _ = writeln!(f, "## history {} {} n={}", h, cfg.describe(), n);
            let _ = f.flush();
        }
        match res {
            Ok((calls, split, old, trace)) => {
                tline = format!("history => ok calls={calls} trace={trace:016x} split={}", (split > 0) as u8);
                rep.bump("set_calls", calls);
                rep.bump("set_calls_while_split", split);
                rep.bump("set_calls_on_old_table_element", old);
                if old > 0 {
                    rep.nontrivial.insert(history_digest(&ops));
                    if rep.samples.len() < 2 {
                        let o: Vec<String> = ops.iter().take(30).map(|o| o.encode()).collect();
                        rep.sample(format!("{} :: {}", cfg.describe(), o.join("; ")));
                    }
                }
            }
            Err(v) => {
                tline = format!("history => VIOL {} after {} calls: {}", v.prop, ops.len(), v.msg);
                if v.hits(&rep.prop) {
                    let prop = rep.prop.clone();
                    let path = write_replay(&rep.replay_dir, &prop, &tag, &cfg, &ops, &v.msg, &[("kind", "set".to_string())]);
                    println!("VIOLATION property={} replay={}", prop, path);
                    println!("  detail: {}", v.msg);
                    rep.violations.push((v.msg, path));
                } else {
                    rep.direct_violation(v.prop, &tag, &v.msg, &[]);
                }
            }
        }
        let mut tlines = vec![tline];
        // algebra cases, three per history slot
        for j in 0..3 {
            let tag = format!("algebra-{}-s{}-i{}-h{}-{}", flavour(), sh.seed, sh.index, h, j);
            rep.last_direct = None;
            match *hr.pick(&[ElemKind::U64, ElemKind::TrInline, ElemKind::TrHeap]) {
                ElemKind::U64 => algebra_case::<u64>(&mut hr, rep, &tag),
                ElemKind::TrInline => algebra_case::<Tr<false>>(&mut hr, rep, &tag),
                ElemKind::TrHeap => algebra_case::<Tr<true>>(&mut hr, rep, &tag),
                ElemKind::Big => algebra_case::<Big>(&mut hr, rep, &tag),
            }
            tlines.push(match &rep.last_direct {
                None => format!("algebra {j} => ok"),
                Some((p, m)) => format!("algebra {j} => VIOL {p}: {m}"),
            });
        }
        if let Some(f) = &mut tfile {
            use std::io::Write as _;
            let mut t = String::new();
            for l in &tlines {
                t.push_str(l);
                t.push('\n');
            }
            t.push_str("## end ok\n");
            let _ = f.write_all(t.as_bytes());
            let _ = f.flush();
        }
    }
}


// ------------------------------------------------------------------------------------------
// setfault (C07): one-shot panics in Hash / Eq / closures during HashSet calls
// ------------------------------------------------------------------------------------------

type FT = Tr<true>;

fn fault_set(contents: &BTreeSet<u64>, bh: Bh, phase: u64, seed: u64) -> SetMon<FT> {
    let (set, _) = build_set::<FT>(contents, bh, phase, &mut Rng::new(seed));
    let mut mon: SetMon<FT> = SetMon::new(usize::MAX, bh);
    mon.model = set.iter().map(|t| (t.val(), t.id())).collect();
    mon.set = set;
    mon
}

/// C07 for the set wrappers (replace, take, get_or_insert*, retain, drain_filter have code of
/// their own): for a deterministic state and a call, a panic is injected at each invocation of
/// each callback kind in turn; afterwards the set must be self-consistent, must have lost only
/// what the property allows, and must go on working.
pub fn setfault(a: &Args, rep: &mut Report) {
    use Code::*;
    let sh = Shard::from_args(a);
    let mut rng = sh.rng(0x5e7fa);
    let miri = cfg!(miri);
    for h in 0..sh.n {
        let mut hr = rng.fork();
        heartbeat();
        let n = if miri { *hr.pick(&[3u64, 15]) } else { *hr.pick(&[1u64, 3, 7, 14, 15, 20, 29, 30, 45, 60, 100]) };
        let phase = hr.below(5);
        let mode = if n <= 30 { *hr.pick(&[HMode::Good, HMode::SameTag, HMode::Const, HMode::Identity]) } else { *hr.pick(&[HMode::Good, HMode::SameTag, HMode::Identity]) };
        let bh = Bh::new(mode, hr.below(3));
        let mut contents = BTreeSet::new();
        while (contents.len() as u64) < n {
            contents.insert(hr.below(4 * n + 8));
        }
        let seed = hr.next();
        // candidate calls
        ledger_reset();
        let probe = fault_set(&contents, bh, phase, seed);
        let olds: Vec<u64> = contents.iter().copied().filter(|k| matches!(probe.locate(*k), Location::Old(_))).collect();
        let mains: Vec<u64> = contents.iter().copied().filter(|k| matches!(probe.locate(*k), Location::Main(_))).collect();
        let was_split = probe.set.verif_state().old.as_ref().map_or(false, |o| o.table.len > 0);
        drop(probe);
        let mut keys: Vec<u64> = vec![4 * n + 100];
        keys.extend(olds.first());
        keys.extend(olds.last());
        keys.extend(mains.first());
        let mut ops: Vec<Op> = Vec::new();
        for &k in &keys {
            for c in [SInsert, SReplace, SRemove, STake, SGet, SContains, SGetOrInsert, SGetOrInsertOwned] {
                ops.push(Op::k(c, k));
            }
            ops.push(Op::k(SGetOrInsertWith, k));
            ops.push(Op::k(SGetOrInsertWith, k).with_v(1));
        }
        for p in [pred_none(), pred_all(), pred_keys(&olds), pred_keys(&mains), pred_mod(2, 0)] {
            ops.push(Op::new(SRetain).with_list(p.clone()));
            ops.push(Op::n(SDrainFilter, MAXN).with_list(p.clone()));
            ops.push(Op::n(SDrainFilter, 1).with_list(p));
        }
        ops.push(Op::new(SExtend).with_list(vec![4 * n + 200, *keys.last().unwrap(), 4 * n + 201]));
        ops.push(Op::n(SReserve, 2 * n + 5));
        ops.push(Op::new(SShrinkToFit));
        ops.push(Op::new(SCloneSwap));
        let per_case = if miri { 1 } else { 8 };
        for _ in 0..per_case {
            let op = hr.pick(&ops).clone();
            let single = op_has_key(op.code);
            'kinds: for kind in [Cb::Hash, Cb::Eq, Cb::Clone, Cb::Closure] {
                for idx in 1..=(if miri { 2u64 } else { 24 }) {
                    ledger_reset();
                    let _ = take_violations();
                    let mut mon = fault_set(&contents, bh, phase, seed);
                    let st0 = mon.set.verif_state();
                    let before = mon.model.clone();
                    visited_reset();
                    fuse_begin(Some((kind, idx)));
                    let r = catch(|| mon.exec(&op));
                    let (_, fired) = fuse_end();
                    let visited = visited_take();
                    if !fired {
                        // fewer than idx callbacks of this kind in the call: next kind
                        match r {
                            Ok(Ok(())) => drop(mon),
                            _ => std::mem::forget(mon),
                        }
                        continue 'kinds;
                    }
                    rep.evaluations += 1;
                    rep.bump(&format!("set_faults_{kind:?}"), 1);
                    let tag = format!("setfault-{}-s{}-i{}-h{}-{}-{kind:?}-{idx}", flavour(), sh.seed, sh.index, h, op.code.name());
                    let body = vec![("kind", "setfault".to_string()), ("contents", format!("{contents:?}")), ("phase", phase.to_string()), ("hasher", format!("{bh:?}")), ("op", op.encode()), ("fault", format!("{kind:?} #{idx}"))];
                    let ctx = format!("after a caught panic in {kind:?} callback #{idx} of set {} ({} elements, phase {phase}, split {was_split})", op.encode(), n);
                    let verdict = (|| -> Result<(), String> {
                        match &r {
                            Ok(_) => return Err(format!("an injected panic was swallowed {ctx}")),
                            Err(p) if !p.contains(FUSE_MSG) => return Err(format!("secondary panic {ctx}: {p}")),
                            Err(_) => {}
                        }
                        let st1 = mon.set.verif_state();
                        if let Some(o) = &st1.old {
                            if o.cursor_remaining != o.table.len {
                                return Err(format!("cached iterator believes {} elements remain, old table holds {} {ctx}", o.cursor_remaining, o.table.len));
                            }
                        }
                        let set = &mon.set;
                        let items: Vec<(u64, u64)> = catch(|| set.iter().map(|t| (t.val(), t.id())).collect()).map_err(|p| format!("iteration panicked {ctx}: {p}"))?;
                        if items.len() != mon.set.len() {
                            return Err(format!("len() = {} but iteration yields {} elements {ctx}", mon.set.len(), items.len()));
                        }
                        if mon.set.capacity() < mon.set.len() {
                            return Err(format!("capacity() {} < len() {} {ctx}", mon.set.capacity(), mon.set.len()));
                        }
                        let mut after: BTreeMap<u64, u64> = BTreeMap::new();
                        for (v, id) in &items {
                            if after.insert(*v, *id).is_some() {
                                return Err(format!("value {v} is stored twice {ctx}"));
                            }
                            if ledger_state(*id) != Some(Life::Live) {
                                return Err(format!("the set holds a dropped object (value {v}) {ctx}"));
                            }
                            let q = FT::mk(*v);
                            match mon.set.get(&q) {
                                Some(t) if t.id() == *id => {}
                                other => return Err(format!("iterated value {v} is not found by get ({:?}) {ctx}", other.map(|t| t.id()))),
                            }
                            if !before.contains_key(v) && !(single && *v == op.k) && !(op.code == SExtend && op.list.contains(v)) && *v < (1 << 50) {
                                return Err(format!("value {v} appeared out of nowhere {ctx}"));
                            }
                        }
                        let lost: Vec<u64> = before.keys().copied().filter(|v| !after.contains_key(v)).collect();
                        let removing = matches!(op.code, SRemove | STake);
                        match kind {
                            Cb::Hash => {
                                if single && st0.old.is_none() && st0.main.capacity != st0.main.len {
                                    let foreign: Vec<u64> = lost.iter().copied().filter(|v| !(removing && *v == op.k)).collect();
                                    if !foreign.is_empty() {
                                        return Err(format!("elements {foreign:?} lost {ctx} although no resize was in progress (nothing was being relocated)"));
                                    }
                                }
                                if single && was_split && lost.len() > 2 * st0.r + 1 {
                                    return Err(format!("{} elements lost {ctx}: a call on one value relocates at most R = {}", lost.len(), st0.r));
                                }
                            }
                            Cb::Eq | Cb::Closure => {
                                if matches!(op.code, SRetain | SDrainFilter) {
                                    let pred = Pred::parse(&op.list);
                                    let wrongly = lost.iter().filter(|v| if op.code == SRetain { pred.eval(**v) } else { !pred.eval(**v) }).count();
                                    if wrongly > 1 {
                                        return Err(format!("{wrongly} elements the predicate wanted to keep were lost {ctx}"));
                                    }
                                    // retain stops at the panic: what it had not looked at yet stays
                                    // (drain_filter's destructor goes on by design)
                                    if op.code == SRetain && kind == Cb::Closure {
                                        let later: Vec<u64> = visited.iter().skip(idx as usize).copied().filter(|v| lost.contains(v)).collect();
                                        if !later.is_empty() {
                                            return Err(format!("retain went on after its predicate panicked and removed {later:?} {ctx} (at most the element handed to the panicking call may go)"));
                                        }
                                    }
                                } else if lost.len() > 1 || (lost.len() == 1 && !removing && lost[0] != op.k) {
                                    return Err(format!("elements {lost:?} lost {ctx} (at most the one handed to the callback may go)"));
                                }
                            }
                            Cb::Clone => {
                                if !lost.is_empty() {
                                    return Err(format!("the source lost {lost:?} {ctx}"));
                                }
                            }
                        }
                        if let Some((_p, m)) = take_violations().into_iter().next() {
                            return Err(format!("{m} {ctx}"));
                        }
                        Ok(())
                    })();
                    if let Err(e) = verdict {
                        rep.direct_violation("C07", &tag, &e, &body);
                        std::mem::forget(mon);
                        continue 'kinds;
                    }
                    // later operations behave normally
                    mon.model = mon.set.iter().map(|t| (t.val(), t.id())).collect();
                    mon.live_base = ledger_live().saturating_sub(mon.model.len());
                    let mut cont: Option<Viol> = None;
                    for j in 0..12u64 {
                        let k2 = if j % 3 == 0 { (1u64 << 40) + j } else { *hr.pick(&keys) };
                        let c2 = *hr.pick(&[SInsert, SContains, SRemove, SReplace, SGet, STake]);
                        if let Err(v) = mon.step(&Op::k(c2, k2)) {
                            cont = Some(v);
                            break;
                        }
                    }
                    match cont {
                        Some(v) => {
                            rep.direct_violation("C07", &tag, &format!("a later call misbehaved {ctx}: {}", v.msg), &body);
                            std::mem::forget(mon);
                        }
                        None => {
                            if let Err(v) = mon.finish() {
                                // objects leaked by the interrupted call are allowed, double drops are not
                                if !v.msg.contains("still live") {
                                    rep.direct_violation("C07", &tag, &format!("{} {ctx}", v.msg), &body);
                                }
                            }
                            if was_split {
                                rep.nontrivial.insert(digest([seed, idx, kind as u64, history_digest(std::slice::from_ref(&op))]));
                            }
                        }
                    }
                }
            }
        }
        if rep.samples.len() < 2 {
            rep.sample(format!("set of {n} values in phase {phase} ({bh:?}), faults in every callback of randomly chosen calls"));
        }
    }
}
