//! History generation: phase-targeting scenario directives followed by a location-biased
//! random tail. Generation consults the model and the hook (to aim at old-table keys and to
//! reach a chosen resize phase); what is recorded - and replayed - is the concrete op list.

use crate::base::*;
use crate::chain::enumerate_chains;
use crate::mon::*;
use crate::ops::step::*;
use crate::ops::*;
use griddle::verif::Location;

#[derive(Clone, Copy, Debug, PartialEq, Eq)]
pub enum Profile {
    General,
    Ub,
    Drops,
    Iters,
    Partition,
    Capacity,
    Headroom,
    Entry,
    Clone,
    Work,
}

impl Profile {
    pub fn parse(s: &str) -> Option<Profile> {
        Some(match s {
            "general" => Profile::General,
            "ub" => Profile::Ub,
            "drops" => Profile::Drops,
            "iters" => Profile::Iters,
            "partition" => Profile::Partition,
            "capacity" => Profile::Capacity,
            "headroom" => Profile::Headroom,
            "entry" => Profile::Entry,
            "clone" => Profile::Clone,
            "work" => Profile::Work,
            _ => return None,
        })
    }
}

/// Scenario directives (expanded into concrete ops while running).
#[derive(Clone, Copy, Debug, PartialEq, Eq)]
pub enum Dir {
    /// insert new keys until the next new key must grow the table
    FillToFull,
    /// insert n new keys
    InsertNew(usize),
    /// remove up to n keys that are in the old table
    RemoveOld(usize),
    /// remove up to n keys that are in the main table (leaves tombstones)
    RemoveMain(usize),
    /// empty the old table with retain (leaves it allocated)
    RetainAwayOld,
    /// empty the old table through replace_entry_with(None)
    ReplaceAwayOld,
    /// n insert+remove pairs of fresh keys
    Churn(usize),
    /// start a resize with `reserve` so that every element sits in the old table and the main
    /// table is empty
    ReserveSplit,
    /// one op of the given code chosen by the random-tail generator
    Tail(usize),
}

pub struct Gen {
    pub rng: Rng,
    pub keyspace: u64,
    pub profile: Profile,
    pub next_new: u64,
    pub script: Vec<Dir>,
    pub pos: usize,
    pub progress: usize,
    pub max_len: usize,
    chains: Vec<Vec<u64>>,
    raw_chains: Vec<Vec<u64>>,
}

fn weights(p: Profile) -> &'static [(Code, u32)] {
    use Code::*;
    match p {
        Profile::General => &[
            (Insert, 30), (Get, 8), (GetMut, 5), (GetKeyValue, 3), (GetKeyValueMut, 3), (ContainsKey, 4), (Index, 3),
            (Remove, 12), (RemoveEntry, 6), (Entry, 14), (RawEntryMut, 10), (RawEntry, 3),
            (Iter, 1), (IterMut, 2), (ValuesMut, 2), (Keys, 1), (Values, 1),
            (Extend, 4), (FromIter, 1), (Clear, 1),
            (Retain, 2), (DrainFilter, 2), (Drain, 1), (Reserve, 2), (TryReserve, 1), (ShrinkToFit, 2), (ShrinkTo, 2),
            (CloneSwap, 1), (CloneFrom, 1), (Probe, 1), (DebugFmt, 1),
        ],
        Profile::Ub => &[
            (Insert, 30), (Get, 4), (GetMut, 3), (Remove, 10), (RemoveEntry, 6), (Entry, 16), (RawEntryMut, 12),
            (Retain, 5), (DrainFilter, 5), (Drain, 2), (IntoIter, 1), (Iter, 2), (IterMut, 2), (Extend, 3),
            (Reserve, 2), (TryReserve, 2), (ShrinkToFit, 2), (ShrinkTo, 1), (CloneSwap, 1), (CloneFrom, 1), (Clear, 1), (Index, 1),
        ],
        Profile::Drops => &[
            (Insert, 28), (Remove, 8), (RemoveEntry, 6), (Entry, 14), (RawEntryMut, 10), (Retain, 4), (DrainFilter, 5),
            (Drain, 4), (IntoIter, 3), (Clear, 2), (Extend, 4), (FromIter, 2), (CloneSwap, 3), (CloneFrom, 3),
            (Reserve, 2), (TryReserve, 2), (ShrinkToFit, 2), (ShrinkTo, 1), (GetMut, 2), (IterMut, 1), (WithCapacity, 1),
        ],
        Profile::Iters => &[
            (Insert, 30), (Remove, 10), (Iter, 8), (Keys, 4), (Values, 4), (IterMut, 5), (ValuesMut, 4), (IntoIter, 4),
            (Drain, 6), (Retain, 3), (Entry, 4), (Reserve, 1), (ShrinkToFit, 1),
            // a sprinkle of every other state-changing call: an iterator is only as good as
            // the state the calls before it left behind
            (Get, 2), (GetMut, 3), (GetKeyValueMut, 2), (RawEntryMut, 3), (RemoveEntry, 2), (DrainFilter, 2), (Extend, 2), (ShrinkTo, 1), (TryReserve, 1), (CloneFrom, 1), (Clear, 1),
        ],
        Profile::Partition => &[
            (Insert, 30), (Remove, 8), (Retain, 12), (DrainFilter, 14), (Entry, 4), (Get, 2), (Reserve, 1), (ShrinkToFit, 1),
            (GetMut, 2), (GetKeyValueMut, 1), (RawEntryMut, 2), (Extend, 1), (ShrinkTo, 1), (TryReserve, 1),
        ],
        Profile::Capacity => &[
            (Insert, 30), (Remove, 10), (Reserve, 8), (TryReserve, 10), (ShrinkToFit, 5), (ShrinkTo, 8), (WithCapacity, 2),
            (Retain, 2), (Entry, 4), (Probe, 3), (Clear, 1),
            (GetMut, 1), (GetKeyValueMut, 1), (RawEntryMut, 2), (Extend, 2), (DrainFilter, 1),
        ],
        Profile::Headroom => &[
            (Insert, 34), (Remove, 14), (Retain, 4), (Entry, 8), (ShrinkToFit, 6), (ShrinkTo, 8), (Reserve, 8), (TryReserve, 3),
            (CloneSwap, 2), (CloneFrom, 3), (Probe, 5), (DrainFilter, 2), (Clear, 1),
            (GetMut, 2), (GetKeyValueMut, 1), (RawEntryMut, 3), (Extend, 2),
        ],
        Profile::Entry => &[
            (Insert, 20), (Remove, 8), (Entry, 30), (RawEntryMut, 26), (RawEntry, 4), (Get, 3), (Retain, 1), (ShrinkToFit, 1), (Reserve, 1),
            (GetMut, 2), (GetKeyValueMut, 2), (Extend, 1), (DrainFilter, 1), (TryReserve, 1),
        ],
        Profile::Clone => &[
            (Insert, 30), (Remove, 10), (CloneSwap, 8), (CloneFrom, 10), (EqSelf, 3), (Entry, 6), (Retain, 2), (Reserve, 2), (ShrinkToFit, 1), (GetMut, 3),
            (GetKeyValueMut, 1), (RawEntryMut, 3), (Extend, 2), (DrainFilter, 1), (ShrinkTo, 1), (TryReserve, 1),
        ],
        Profile::Work => &[
            (Insert, 40), (Get, 8), (GetMut, 4), (ContainsKey, 4), (Remove, 12), (RemoveEntry, 4), (Entry, 12), (RawEntryMut, 10), (RawEntry, 3), (Index, 2), (GetKeyValue, 2),
        ],
    }
}

/// The complete chain enumerations (computed once per process: costly under Miri).
pub fn cached_chains(raw: bool) -> &'static Vec<Vec<u64>> {
    static E: std::sync::OnceLock<Vec<Vec<u64>>> = std::sync::OnceLock::new();
    static R: std::sync::OnceLock<Vec<Vec<u64>>> = std::sync::OnceLock::new();
    if raw {
        R.get_or_init(|| enumerate_chains(true, if cfg!(miri) { 2 } else { 3 }, &[7, 11, 13]))
    } else {
        E.get_or_init(|| enumerate_chains(false, if cfg!(miri) { 2 } else { 3 }, &[7, 11, 13]))
    }
}

impl Gen {
    pub fn new(seed: u64, profile: Profile, keyspace: u64, tail: usize, max_len: usize) -> Gen {
        let mut rng = Rng::new(seed);
        let mut script = Vec::new();
        // scenario prefix: 0-4 directives
        let n = rng.usize(5);
        for _ in 0..n {
            let d = match rng.below(10) {
                0 | 1 | 2 => Dir::FillToFull,
                3 | 4 => Dir::InsertNew(1 + rng.usize(9)),
                5 => Dir::RemoveOld(1 + rng.usize(12)),
                6 => Dir::RemoveMain(1 + rng.usize(8)),
                7 => {
                    if rng.chance(1, 2) {
                        Dir::RetainAwayOld
                    } else {
                        Dir::ReplaceAwayOld
                    }
                }
                8 => Dir::Churn(1 + rng.usize(10)),
                _ => {
                    if rng.chance(1, 2) {
                        Dir::ReserveSplit
                    } else {
                        Dir::InsertNew(1)
                    }
                }
            };
            script.push(d);
        }
        script.push(Dir::Tail(tail));
        Gen {
            rng,
            keyspace,
            profile,
            next_new: 0,
            script,
            pos: 0,
            progress: 0,
            max_len,
            chains: cached_chains(false).clone(),
            raw_chains: cached_chains(true).clone(),
        }
    }

    pub fn with_script(mut self, script: Vec<Dir>) -> Gen {
        self.script = script;
        self
    }

    /// A key that is not in the map (drawn from the key space if possible).
    pub fn new_key<K: El, V: El>(&mut self, mon: &Mon<K, V>) -> u64 {
        for _ in 0..8 {
            let k = self.rng.below(self.keyspace);
            if !mon.model.contains_key(&k) {
                return k;
            }
        }
        loop {
            self.next_new += 1;
            let k = self.keyspace + self.next_new;
            if !mon.model.contains_key(&k) {
                return k;
            }
        }
    }

    pub fn existing_key<K: El, V: El>(&mut self, mon: &Mon<K, V>) -> Option<u64> {
        if mon.model.is_empty() {
            return None;
        }
        let r = self.rng.next();
        let lo = *mon.model.keys().next().unwrap();
        let hi = *mon.model.keys().next_back().unwrap();
        let pivot = if hi > lo { lo + r % (hi - lo + 1) } else { lo };
        mon.model.range(pivot..).next().map(|(k, _)| *k).or(Some(lo))
    }

    /// A key currently stored in the old (true) or main (false) table.
    pub fn key_in<K: El, V: El>(&mut self, mon: &Mon<K, V>, old: bool) -> Option<u64> {
        let st = mon.state();
        if old && st.old.as_ref().map_or(true, |o| o.table.len == 0) {
            return None;
        }
        if !old && st.main.len == 0 {
            return None;
        }
        for _ in 0..12 {
            let k = self.existing_key(mon)?;
            let l = mon.locate(k);
            if matches!(l, Location::Old(_)) == old && l != Location::Absent {
                return Some(k);
            }
        }
        if mon.model.len() <= 4096 {
            let start = self.existing_key(mon)?;
            for (k, _) in mon.model.range(start..).chain(mon.model.range(..start)) {
                let l = mon.locate(*k);
                if matches!(l, Location::Old(_)) == old && l != Location::Absent {
                    return Some(*k);
                }
            }
        }
        None
    }

    pub fn keys_in<K: El, V: El>(&mut self, mon: &Mon<K, V>, old: bool) -> Vec<u64> {
        mon.model.keys().copied().filter(|k| matches!(mon.locate(*k), Location::Old(_)) == old).collect()
    }

    /// Location-biased key choice for element-targeted ops.
    pub fn pick_key<K: El, V: El>(&mut self, mon: &Mon<K, V>) -> u64 {
        let split = mon.state().old.is_some();
        let roll = self.rng.below(100);
        if roll < 22 {
            return self.rng.below(self.keyspace);
        }
        if roll < 30 {
            return self.new_key(mon);
        }
        if split && roll < 75 {
            if let Some(k) = self.key_in(mon, true) {
                return k;
            }
        }
        self.existing_key(mon).unwrap_or_else(|| self.rng.below(self.keyspace))
    }

    fn pred<K: El, V: El>(&mut self, mon: &Mon<K, V>) -> Vec<u64> {
        match self.rng.below(8) {
            0 => pred_none(),
            1 => pred_all(),
            2 => {
                // exactly the old-table elements
                let ks = self.keys_in(mon, true);
                pred_keys(&ks)
            }
            3 => {
                let ks = self.keys_in(mon, false);
                pred_keys(&ks)
            }
            4 | 5 => {
                let m = 2 + self.rng.below(4);
                pred_mod(m, self.rng.below(m))
            }
            _ => {
                let ks: Vec<u64> = mon.model.keys().copied().filter(|_| self.rng.chance(1, 2)).collect();
                pred_keys(&ks)
            }
        }
    }

    fn prefix(&mut self, len: usize) -> u64 {
        match self.rng.below(4) {
            0 | 1 => MAXN,
            2 => self.rng.below(len as u64 + 1),
            _ => {
                if len > 0 {
                    self.rng.below(3).min(len as u64)
                } else {
                    0
                }
            }
        }
    }

    fn pairs<K: El, V: El>(&mut self, mon: &Mon<K, V>, n: usize) -> Vec<u64> {
        let mut l = Vec::new();
        for _ in 0..n {
            let k = if self.rng.chance(1, 2) { self.new_key(mon) } else { self.pick_key(mon) };
            l.push(k);
            l.push(self.rng.below(1000));
        }
        l
    }

    fn capacity_arg<K: El, V: El>(&mut self, mon: &Mon<K, V>) -> u64 {
        let len = mon.map.len() as u64;
        let free = (mon.map.capacity() as u64).saturating_sub(len);
        let r = mon.state().r as u64;
        let cands = [
            0,
            1,
            free.saturating_sub(1),
            free,
            free + 1,
            len,
            2 * len,
            (len + r - 1) / r,
            (len + r - 1) / r + 1,
            free + (len + r - 1) / r,
            self.rng.below(64),
            self.rng.below(600),
            len + self.rng.below(40),
        ];
        *self.rng.pick(&cands)
    }

    /// Boundary arguments around the usize / isize limits (only for the fallible call and for
    /// sizes whose failure is arithmetic).
    pub fn huge_arg<K: El, V: El>(&mut self, mon: &Mon<K, V>) -> u64 {
        let len = mon.map.len() as u64;
        let r = mon.state().r as u64;
        let d = self.rng.below(len + 2 * ((len + r - 1) / r) + 4);
        match self.rng.below(7) {
            0 => u64::MAX - d,
            1 => (i64::MAX as u64) - d,
            2 => (i64::MAX as u64) + d,
            3 => u64::MAX / 16 + d,
            4 => u64::MAX / 16 - d,
            5 => 1u64 << (59 + self.rng.below(5)),
            _ => u64::MAX / 2 - d,
        }
    }

    pub fn random_op<K: El, V: El>(&mut self, mon: &Mon<K, V>) -> Op {
        use Code::*;
        let w = weights(self.profile);
        let total: u32 = w.iter().map(|x| x.1).sum();
        let split = mon.state().old.as_ref().map_or(false, |o| o.table.len > 0);
        let mut code = w[0].0;
        for attempt in 0..2 {
            let mut roll = self.rng.below(total as u64) as u32;
            for (c, wt) in w {
                if roll < *wt {
                    code = *c;
                    break;
                }
                roll -= wt;
            }
            // a resize in flight is short-lived under insert-heavy load: while split, prefer
            // calls that do not finish or discard it, so that more calls see the split state
            let ends_split = matches!(code, Insert | Extend | Probe | FromIter | WithCapacity | Clear | Drain | IntoIter | CloneSwap | CloneFrom | Reserve | TryReserve);
            if !(split && ends_split && attempt == 0 && self.rng.chance(3, 5)) {
                break;
            }
        }
        let len = mon.map.len();
        // keep maps within the size budget of this history
        if len >= self.max_len && matches!(code, Insert | Extend | Probe | FromIter) {
            code = Remove;
        }
        if code == Probe && mon.map.capacity() - len > 4096 {
            code = Insert;
        }
        let val = self.rng.below(1000);
        match code {
            Insert => {
                let k = if self.rng.chance(if split { 2 } else { 3 }, 5) { self.new_key(mon) } else { self.pick_key(mon) };
                Op::kv(Insert, k, val)
            }
            Get | ContainsKey | Index | GetKeyValue | Remove | RemoveEntry => Op::k(code, self.pick_key(mon)),
            GetMut | GetKeyValueMut => Op::kv(code, self.pick_key(mon), val),
            RawEntry => Op::k(code, self.pick_key(mon)).with_n(self.rng.below(3)),
            Entry => {
                let c = self.rng.pick(&self.chains).clone();
                Op::k(Entry, self.pick_key(mon)).with_list(c)
            }
            RawEntryMut => {
                let c = self.rng.pick(&self.raw_chains).clone();
                Op::k(RawEntryMut, self.pick_key(mon)).with_n(self.rng.below(3)).with_list(c)
            }
            Iter => Op::n(Iter, if self.rng.chance(1, 2) { self.rng.below(len as u64 + 1) } else { MAXN }),
            Keys | Values | Clear | ShrinkToFit | CloneSwap | EqSelf | DebugFmt | Probe | FullCheck => Op::new(code),
            IterMut | ValuesMut => Op::new(code).with_v(1 + self.rng.below(5)),
            IntoIter => Op::n(IntoIter, self.prefix(len)),
            Drain => Op::n(Drain, self.prefix(len)).with_v(if len <= 64 { self.forget_mode() } else { 0 }),
            Retain => Op::new(Retain).with_list(self.pred(mon)).with_v(if self.rng.chance(1, 3) { 1 + self.rng.below(5) } else { 0 }),
            DrainFilter => {
                // (forgetting leaks what the iterator still owns: keep that bounded)
                let fm = if len <= 64 { self.forget_mode() } else { 0 };
                Op::n(DrainFilter, self.prefix(len))
                    .with_list(self.pred(mon))
                    .with_v(if self.rng.chance(1, 3) { 1 + self.rng.below(5) } else { 0 })
                    .with_k(fm)
            }
            Extend | FromIter => {
                let n = self.rng.usize(12);
                Op::new(code).with_list(self.pairs(mon, n))
            }
            Reserve => Op::n(Reserve, self.capacity_arg(mon)),
            TryReserve => {
                // failing calls too: sizes nobody can allocate, and injected allocation failure
                let cap_profile = self.profile == Profile::Capacity;
                if self.rng.chance(1, if cap_profile { 4 } else { 8 }) {
                    Op::n(TryReserve, self.huge_arg(mon))
                } else {
                    let inject = self.rng.chance(1, if cap_profile { 3 } else { 6 }) as u64;
                    Op::n(TryReserve, self.capacity_arg(mon)).with_v(inject)
                }
            }
            ShrinkTo => {
                // floors nobody can reach (a no-op by contract), mostly while a resize is in flight
                if self.rng.chance(1, if split { 6 } else { 20 }) {
                    Op::n(ShrinkTo, self.huge_arg(mon))
                } else {
                    Op::n(ShrinkTo, self.capacity_arg(mon))
                }
            }
            WithCapacity => Op::n(WithCapacity, *self.rng.pick(&[0, 1, 3, 7, 14, 28, 29, 56, 100])),
            CloneFrom => {
                let n = self.rng.usize(40);
                let mut l = Vec::new();
                for i in 0..n {
                    l.push(if self.rng.chance(1, 2) { self.rng.below(self.keyspace) } else { 5_000_000 + i as u64 });
                    l.push(self.rng.below(1000));
                }
                // destination capacities around the source's main-table length: hashbrown's
                // clone_from re-uses a destination allocation that fits the main table only
                let st = mon.state();
                let ml = st.main.len as u64;
                let total = mon.map.len() as u64;
                let caps = [0, 0, 3, 7, 14, 28, ml, ml + 1, ml.saturating_sub(1), (ml + total) / 2, total, total.saturating_sub(1)];
                let cap = *self.rng.pick(&caps);
                if self.rng.chance(1, 3) {
                    l.clear();
                }
                Op::n(CloneFrom, cap).with_v(self.rng.below(6 * 4)).with_list(l)
            }
            _ => Op::new(FullCheck),
        }
    }

    fn forget_mode(&mut self) -> u64 {
        // forgetting leaks by design; it blinds leak detectors, so only the ledger profiles use it
        if noforget() {
            return 0;
        }
        match self.profile {
            Profile::Ub => 0,
            _ => self.rng.chance(1, 8) as u64,
        }
    }

    /// The next concrete op, or None when the script is finished.
    pub fn next_op<K: El, V: El>(&mut self, mon: &Mon<K, V>) -> Option<Op> {
        use Code::*;
        loop {
            let d = *self.script.get(self.pos)?;
            let advance = |g: &mut Gen| {
                g.pos += 1;
                g.progress = 0;
            };
            match d {
                Dir::FillToFull => {
                    let st = mon.state();
                    let full = st.old.is_none() && st.main.capacity == st.main.len && st.main.buckets > 1;
                    if full || self.progress > 4096 || mon.map.len() >= self.max_len {
                        advance(self);
                        continue;
                    }
                    self.progress += 1;
                    return Some(Op::kv(Insert, self.new_key(mon), self.rng.below(1000)));
                }
                Dir::InsertNew(n) => {
                    if self.progress >= n {
                        advance(self);
                        continue;
                    }
                    self.progress += 1;
                    return Some(Op::kv(Insert, self.new_key(mon), self.rng.below(1000)));
                }
                Dir::RemoveOld(n) | Dir::RemoveMain(n) => {
                    let old = matches!(d, Dir::RemoveOld(_));
                    if self.progress >= n {
                        advance(self);
                        continue;
                    }
                    match self.key_in(mon, old) {
                        None => {
                            advance(self);
                            continue;
                        }
                        Some(k) => {
                            self.progress += 1;
                            let code = if self.rng.chance(2, 3) { Remove } else { RemoveEntry };
                            return Some(Op::k(code, k));
                        }
                    }
                }
                Dir::RetainAwayOld => {
                    advance(self);
                    let ks = self.keys_in(mon, false);
                    if mon.state().old.is_none() {
                        continue;
                    }
                    return Some(Op::new(Retain).with_list(pred_keys(&ks)));
                }
                Dir::ReplaceAwayOld => match self.key_in(mon, true) {
                    None => {
                        advance(self);
                        continue;
                    }
                    Some(k) => {
                        self.progress += 1;
                        if self.progress > 600 {
                            advance(self);
                            continue;
                        }
                        if self.rng.chance(1, 2) {
                            return Some(Op::k(Entry, k).with_list(vec![E_AND_REPLACE, MAXN]));
                        } else {
                            return Some(Op::k(RawEntryMut, k).with_n(self.rng.below(3)).with_list(vec![RE_AND_REPLACE, MAXN]));
                        }
                    }
                },
                Dir::Churn(n) => {
                    if self.progress >= 2 * n {
                        advance(self);
                        continue;
                    }
                    self.progress += 1;
                    if self.progress % 2 == 1 {
                        return Some(Op::kv(Insert, self.new_key(mon), 1));
                    } else {
                        let k = self.existing_key(mon).unwrap_or(0);
                        return Some(Op::k(Remove, k));
                    }
                }
                Dir::ReserveSplit => {
                    advance(self);
                    let st = mon.state();
                    if st.old.is_some() || mon.map.is_empty() {
                        continue;
                    }
                    let free = (mon.map.capacity() - mon.map.len()) as u64;
                    return Some(Op::n(Reserve, free + 1));
                }
                Dir::Tail(n) => {
                    if self.progress >= n {
                        advance(self);
                        continue;
                    }
                    self.progress += 1;
                    return Some(self.random_op(mon));
                }
            }
        }
    }
}
