//! C07: panic injection at every invocation index of every user callback of an operation,
//! in every explored state (fault enumeration).

use crate::base::*;
use crate::chain::enumerate_chains;
use crate::gen::*;
use crate::mon::*;
use crate::ops::step::*;
use crate::ops::*;
use crate::run::*;
use crate::sweep::Sess;
use crate::viol;
use crate::work::Shard;
use std::collections::{BTreeMap, BTreeSet};

type T = Tr<true>;

pub struct FaultInfo {
    pub fired: bool,
    pub lost: usize,
    pub leaked: usize,
    pub split: bool,
}

/// Values an operation may legitimately write.
fn written_values(op: &Op) -> BTreeSet<u64> {
    let mut s = BTreeSet::new();
    s.insert(op.v);
    s.insert(0);
    match op.code {
        Code::Entry | Code::RawEntryMut => {
            for c in op.list.chunks(2) {
                if c.len() == 2 {
                    s.insert(c[1]);
                }
            }
        }
        Code::Extend | Code::FromIter | Code::CloneFrom => {
            for c in op.list.chunks(2) {
                if c.len() == 2 {
                    s.insert(c[1]);
                }
            }
        }
        _ => {}
    }
    s
}

fn added_keys(op: &Op) -> BTreeSet<u64> {
    let mut s = BTreeSet::new();
    if op_has_key(op.code) {
        s.insert(op.k);
    }
    if matches!(op.code, Code::Extend | Code::FromIter) {
        for c in op.list.chunks(2) {
            s.insert(c[0]);
        }
    }
    s
}

impl Mon<T, T> {
    /// Count the callbacks `op` performs in this state (same window as `step_faulted`).
    pub fn count_callbacks(&mut self, op: &Op) -> Option<[u64; 4]> {
        let st0 = self.state();
        let loc0 = if op_has_key(op.code) { Some(self.locate(op.k)) } else { None };
        fuse_begin(None);
        let r = catch(|| self.exec(op, &st0, loc0));
        let (counts, _) = fuse_end();
        match r {
            Ok(Ok(_)) => Some(counts),
            _ => None,
        }
    }

    /// Run `op` with the fuse armed, then check that the map survived the panic.
    pub fn step_faulted(&mut self, op: &Op, kind: Cb, index: u64) -> Res<FaultInfo> {
        heartbeat();
        let st0 = self.state();
        let split = st0.old.as_ref().map_or(false, |o| o.table.len > 0);
        let loc0 = if op_has_key(op.code) { Some(self.locate(op.k)) } else { None };
        let before = self.model.clone();
        let _ = take_violations();
        visited_reset();
        fuse_begin(Some((kind, index)));
        let r = catch(|| self.exec(op, &st0, loc0));
        let (_counts, fired) = fuse_end();
        let visited = visited_take();
        let enc = op.encode();
        match r {
            Ok(Ok(_)) => {
                if fired {
                    viol!("C07", "an injected panic in {kind:?} #{index} of {enc} was swallowed");
                }
                // the callback index was not reached in this run (non-deterministic count)
                return Ok(FaultInfo { fired: false, lost: 0, leaked: 0, split });
            }
            Ok(Err(v)) => {
                if fired {
                    // exec noticed a mismatch after a fault that was caught inside the op (only
                    // Index catches): treat as harness confusion
                    viol!(HARNESS, "fault run of {enc} ended in {}: {}", v.prop, v.msg);
                }
                return Err(v);
            }
            Err(p) => {
                if !p.contains(FUSE_MSG) {
                    viol!("C07", "{enc} with a panic injected in {kind:?} #{index}: secondary panic: {p}");
                }
            }
        }
        let ctx = format!("after a caught panic in {kind:?} callback #{index} of {enc}");
        // (1) the cached iterator still agrees with the old table
        let st1 = self.state();
        if let Some(o) = &st1.old {
            if o.cursor_remaining != o.table.len {
                // (also C05's clause: the cached position agrees with the old table however
                // elements left it)
                return Err(Viol { extra: Vec::new(), prop: "C07", more: &["C05"], msg: format!("cached iterator believes {} elements remain, old table holds {} {ctx}", o.cursor_remaining, o.table.len) });
            }
            if let Some((mut c, mut f)) = self.map.verif_cursor() {
                c.sort_unstable();
                f.sort_unstable();
                if c != f {
                    return Err(Viol { extra: Vec::new(), prop: "C07", more: &["C05"], msg: format!("cached iterator would visit {:?}, old table holds {:?} {ctx}", c, f) });
                }
            }
        }
        // (2) len == iterated count, every element live, found by get, holding a legitimate value
        let is_clone_from = op.code == Code::CloneFrom || op.code == Code::CloneSwap;
        let mut after: BTreeMap<u64, Slot> = BTreeMap::new();
        let written = written_values(op);
        let added = added_keys(op);
        let map = &self.map;
        let scan = catch(|| {
            let mut v = Vec::new();
            for (k, val) in map.iter() {
                v.push((k.val(), k.id(), val.val(), val.id()));
            }
            v
        });
        let items = match scan {
            Ok(v) => v,
            Err(p) => viol!("C07", "iteration panicked {ctx}: {p}"),
        };
        if items.len() != self.map.len() {
            viol!("C07", "len() = {} but iteration yields {} entries {ctx}", self.map.len(), items.len());
        }
        if self.map.capacity() < self.map.len() {
            return Err(Viol { extra: Vec::new(), prop: "C07", more: &["C04"], msg: format!("capacity() {} < len() {} {ctx}", self.map.capacity(), self.map.len()) });
        }
        // "later operations behave normally": the interrupted call must not have eaten into the
        // room the main table keeps for the elements still waiting in the old table (C04)
        if let Some(o) = &st1.old {
            let l = o.table.len;
            let need = l + (l + st1.r - 1) / st1.r;
            let room = st1.main.capacity.saturating_sub(st1.main.len);
            if l > 0 && room < need {
                return Err(Viol {
                    extra: Vec::new(),
                    prop: "C07",
                    more: &["C04"],
                    msg: format!("the main table has room for {room} more elements but {l} are still in the old table and moving them takes {} insertions {ctx}", (l + st1.r - 1) / st1.r),
                });
            }
        }
        for (k, kid, pay, vid) in &items {
            if after.insert(*k, Slot { kid: *kid, vid: *vid, pay: *pay }).is_some() {
                viol!("C07", "key {k} is stored twice {ctx}");
            }
            if ledger_state(*kid) != Some(Life::Live) || ledger_state(*vid) != Some(Life::Live) {
                viol!("C07", "the map holds a dropped object (key {k}) {ctx}");
            }
            let q = T::mk(*k);
            match self.map.get(&q) {
                Some(v) if v.id() == *vid => {}
                other => viol!("C07", "iterated key {k} is not found by get ({:?}) {ctx}", other.map(|v| v.id())),
            }
            match before.get(k) {
                Some(b) => {
                    let delta_ok = matches!(op.code, Code::Retain | Code::DrainFilter | Code::IterMut | Code::ValuesMut) && *pay == b.pay.wrapping_add(op.v);
                    if !(b.pay == *pay || written.contains(pay) || delta_ok) {
                        viol!("C07", "key {k} holds payload {pay}, it had {} and the op writes {:?} {ctx}", b.pay, written);
                    }
                }
                None => {
                    if !added.contains(k) {
                        viol!("C07", "key {k} appeared out of nowhere {ctx}");
                    }
                }
            }
        }
        // (3) losses only where documented
        let lost: Vec<u64> = before.keys().copied().filter(|k| !after.contains_key(k)).collect();
        let removing = matches!(op.code, Code::Remove | Code::RemoveEntry | Code::Retain | Code::DrainFilter | Code::Drain | Code::IntoIter | Code::Clear | Code::Entry | Code::RawEntryMut);
        match kind {
            Cb::Hash => {
                // "a panicking Hash may drop elements being relocated": a single-key call made
                // while a resize is in flight relocates at most R elements per key it adds (C02),
                // and its main table cannot need re-hashing (C04), so no more than that many can
                // be in flight when the hasher panics (an entry chain adds at most two keys)
                // no resize in flight and none started by this call: nothing is being relocated,
                // so a panicking Hash cannot cost a stored element (an entry chain may have
                // removed its own key before a later step hashed again)
                if st0.old.is_none() && st0.main.capacity != st0.main.len && op_has_key(op.code) {
                    let own_chain = matches!(op.code, Code::Entry | Code::RawEntryMut);
                    let foreign: Vec<u64> = lost.iter().copied().filter(|k| !(own_chain && *k == op.k)).collect();
                    if !foreign.is_empty() {
                        viol!("C07", "elements {:?} lost {ctx} although no resize was in progress (nothing was being relocated)", foreign);
                    }
                }
                if split && op_has_key(op.code) {
                    let bound = 2 * st0.r + removing as usize;
                    if lost.len() > bound {
                        viol!(
                            "C07",
                            "{} elements lost {ctx}: a call on one key relocates at most R = {} elements, the others were waiting in the old table, not being relocated: {:?}",
                            lost.len(),
                            st0.r,
                            &lost[..lost.len().min(24)]
                        );
                    }
                }
            }
            Cb::Eq | Cb::Closure => {
                let bulk = matches!(op.code, Code::Retain | Code::DrainFilter);
                if !bulk && lost.len() > 1 {
                    viol!("C07", "{} elements lost {ctx} (at most the one handed to the callback may go): {:?}", lost.len(), lost);
                }
                if bulk {
                    // elements legitimately removed before the panic, plus at most the one in hand
                    let pred = Pred::parse(&op.list);
                    let wrongly: Vec<u64> = lost.iter().copied().filter(|k| if op.code == Code::Retain { pred.eval(*k) } else { !pred.eval(*k) }).collect();
                    if wrongly.len() > 1 {
                        viol!("C07", "elements the predicate wanted to keep were lost {ctx}: {:?}", wrongly);
                    }
                    // retain stops at the panic: what it had not looked at yet stays
                    // (drain_filter's destructor goes on by design)
                    if op.code == Code::Retain && kind == Cb::Closure {
                        let later: Vec<u64> = visited.iter().skip(index as usize).copied().filter(|k| lost.contains(k)).collect();
                        if !later.is_empty() {
                            viol!("C07", "retain went on after its predicate panicked and removed {:?} {ctx} (at most the element handed to the panicking call may go)", later);
                        }
                    }
                } else if lost.len() == 1 && !removing && !(op_has_key(op.code) && lost[0] == op.k) {
                    viol!("C07", "element {} lost {ctx}", lost[0]);
                }
            }
            Cb::Clone => {
                if !lost.is_empty() {
                    viol!("C07", "the source lost {:?} {ctx}", lost);
                }
            }
        }
        let _ = is_clone_from;
        // (3b) the destination of an interrupted clone_from: contents unspecified (which
        // elements it holds is not judged), but it must still be a map - no key twice, len() ==
        // number of iterated entries, every element a live object, capacity() >= len(), room
        // for its own leftovers
        if let Some(d) = self.limbo.take() {
            let mut seen: BTreeSet<u64> = BTreeSet::new();
            let mut n = 0usize;
            let scan = catch(|| {
                let mut v = Vec::new();
                for (k, val) in d.iter() {
                    v.push((k.val(), k.id(), val.id()));
                }
                v
            });
            let items = match scan {
                Ok(v) => v,
                Err(p) => {
                    std::mem::forget(d);
                    viol!("C07", "iterating the destination of the interrupted clone_from panicked {ctx}: {p}");
                }
            };
            let mut bad: Option<(String, &'static [&'static str])> = None;
            for (k, kid, vid) in &items {
                n += 1;
                if !seen.insert(*k) {
                    bad = Some((format!("the destination of the interrupted clone_from holds key {k} twice"), &["C11"]));
                }
                if ledger_state(*kid) != Some(Life::Live) || ledger_state(*vid) != Some(Life::Live) {
                    bad = Some((format!("the destination of the interrupted clone_from holds a dropped object (key {k})"), &["C05"]));
                }
            }
            if d.len() != n {
                bad = Some((format!("the destination of the interrupted clone_from reports len() = {} but iteration yields {n} entries", d.len()), &["C11"]));
            }
            if d.capacity() < d.len() {
                bad = Some((format!("the destination of the interrupted clone_from has capacity() {} < len() {}", d.capacity(), d.len()), &["C04", "C11"]));
            }
            let ds = d.verif_state();
            if let Some(o) = &ds.old {
                let l = o.table.len;
                if o.cursor_remaining != l {
                    bad = Some((format!("the destination of the interrupted clone_from: cached iterator believes {} elements remain, old table holds {l}", o.cursor_remaining), &["C05"]));
                }
                if l > 0 && ds.main.capacity.saturating_sub(ds.main.len) < l + (l + ds.r - 1) / ds.r {
                    bad = Some((format!("the destination of the interrupted clone_from has no room in its main table ({} free) for the {l} elements in its old table", ds.main.capacity.saturating_sub(ds.main.len)), &["C04", "C11"]));
                }
            }
            match bad {
                Some((msg, more)) => {
                    std::mem::forget(d);
                    return Err(Viol { extra: Vec::new(), prop: "C07", more, msg: format!("{msg} {ctx}") });
                }
                None => {
                    drop(d);
                    if let Some((_p, m)) = take_violations().into_iter().next() {
                        viol!("C07", "dropping the destination of the interrupted clone_from: {m} {ctx}");
                    }
                }
            }
        }
        // (4) nothing dropped twice, nothing read after free
        if let Some((_p, m)) = take_violations().into_iter().next() {
            viol!("C07", "{m} {ctx}");
        }
        // lost elements must at least have been dropped (a leak is recorded, not alarmed)
        let mut leaked = 0;
        for k in &lost {
            let b = before[k];
            if ledger_state(b.kid) == Some(Life::Live) {
                leaked += 1;
            }
        }
        // (5) resynchronise the model with the survivors; later operations must behave normally
        self.model = after;
        self.live_base = ledger_live().saturating_sub(2 * self.model.len());
        self.since_growth = None;
        if self.alloc_checks {
            self.tables_base = table_live() - (st1.main.buckets > 1) as i64 - st1.old.is_some() as i64;
        }
        Ok(FaultInfo { fired: true, lost: lost.len(), leaked, split })
    }
}

fn pick_indices(n: u64, rng: &mut Rng, cap: usize) -> Vec<u64> {
    if n as usize <= cap {
        return (1..=n).collect();
    }
    let mut s = BTreeSet::new();
    for i in 1..=(cap as u64 / 4) {
        s.insert(i);
        s.insert(n + 1 - i);
    }
    while s.len() < cap {
        s.insert(1 + rng.below(n));
    }
    s.into_iter().collect()
}

fn fault_ops(rng: &mut Rng, s: &Sess<T, T>, chains: &[Vec<u64>], raw_chains: &[Vec<u64>]) -> Vec<Op> {
    // key per location class
    let mut keys: Vec<u64> = vec![777_777_777];
    let olds = s.keys_at(true);
    let mains = s.keys_at(false);
    if let Some(k) = olds.first() {
        keys.push(*k);
    }
    if let Some(k) = olds.last() {
        keys.push(*k);
    }
    if let Some(k) = mains.first() {
        keys.push(*k);
    }
    let mut ops = Vec::new();
    let closure_chain = |c: &Vec<u64>| c.chunks(2).any(|s| matches!(s[0], E_OR_INSERT_WITH | E_OR_INSERT_WITH_KEY | E_AND_MODIFY | E_AND_REPLACE | O_REPLACE_WITH | RE_OR_INSERT_WITH | RE_AND_MODIFY | RE_AND_REPLACE | RO_REPLACE_WITH));
    for &k in &keys {
        ops.push(Op::kv(Code::Insert, k, 5));
        ops.push(Op::k(Code::Remove, k));
        ops.push(Op::k(Code::Get, k));
        for _ in 0..3 {
            let c = loop {
                let c = rng.pick(chains);
                if closure_chain(c) || rng.chance(1, 4) {
                    break c.clone();
                }
            };
            ops.push(Op::k(Code::Entry, k).with_list(c));
            let c = loop {
                let c = rng.pick(raw_chains);
                if closure_chain(c) || rng.chance(1, 4) {
                    break c.clone();
                }
            };
            ops.push(Op::k(Code::RawEntryMut, k).with_n(rng.below(3)).with_list(c));
        }
    }
    let all: Vec<u64> = s.mon.model.keys().copied().collect();
    let half: Vec<u64> = all.iter().copied().filter(|_| rng.chance(1, 2)).collect();
    for p in [pred_none(), pred_all(), pred_keys(&olds), pred_keys(&mains), pred_keys(&half), pred_mod(2, 0)] {
        let d = if rng.chance(1, 2) { 3 } else { 0 };
        ops.push(Op::new(Code::Retain).with_list(p.clone()).with_v(d));
        ops.push(Op::n(Code::DrainFilter, MAXN).with_list(p.clone()).with_v(d));
        ops.push(Op::n(Code::DrainFilter, 1).with_list(p).with_v(d));
    }
    let mut pairs = Vec::new();
    for i in 0..6u64 {
        pairs.push(if i % 2 == 0 { 900_000 + i } else { *rng.pick(&keys) });
        pairs.push(40 + i);
    }
    ops.push(Op::new(Code::Extend).with_list(pairs.clone()));
    ops.push(Op::new(Code::FromIter).with_list(pairs.clone()));
    ops.push(Op::new(Code::CloneSwap));
    ops.push(Op::n(Code::CloneFrom, 0).with_v(rng.below(24)).with_list(pairs.clone()));
    let mut many = Vec::new();
    for i in 0..20u64 {
        many.push(800_000 + i);
        many.push(i);
    }
    ops.push(Op::n(Code::CloneFrom, 3).with_v(rng.below(24)).with_list(many));
    // destinations that are themselves mid-resize when clone_from starts (15, 29..31, 58 keys
    // inserted one by one into an unallocated map)
    for cnt in [15u64, 29, 30, 58] {
        let mut l = Vec::new();
        for i in 0..cnt {
            l.push(700_000 + i);
            l.push(i);
        }
        ops.push(Op::n(Code::CloneFrom, 0).with_v(rng.below(24)).with_list(l));
    }
    ops.push(Op::n(Code::Reserve, all.len() as u64 * 2 + 5));
    ops.push(Op::n(Code::Reserve, 1));
    ops.push(Op::n(Code::TryReserve, all.len() as u64 + 9));
    ops.push(Op::new(Code::ShrinkToFit));
    ops.push(Op::n(Code::ShrinkTo, all.len() as u64 + 2));
    // a floor that keeps the bucket count (the call then has nothing to relocate)
    let b = s.mon.state().main.buckets as u64;
    ops.push(Op::n(Code::ShrinkTo, b / 8 * 7 * 3 / 4));
    ops.push(Op::n(Code::ShrinkTo, b / 8 * 7));
    ops.push(Op::new(Code::EqSelf));
    ops.push(Op::new(Code::IterMut).with_v(2));
    ops
}

pub fn fault(a: &Args, rep: &mut Report) {
    let sh = Shard::from_args(a);
    let mut rng = sh.rng(0xFA17);
    let chains = enumerate_chains(false, 3, &[7, 11, 13]);
    let raw_chains = enumerate_chains(true, 3, &[7, 11, 13]);
    let miri = cfg!(miri);
    let mut case_no = 0u64;
    'cases: for h in 0..sh.n {
        let mut hr = rng.fork();
        let size = if miri { *hr.pick(&[3usize, 9, 17]) } else { *hr.pick(&[1usize, 3, 7, 14, 20, 29, 30, 45, 60, 100, 130, 250]) };
        let state = crate::sweep::draw_state(&mut hr);
        let mode = if size <= 30 { *hr.pick(&[HMode::Good, HMode::SameTag, HMode::Const, HMode::Identity, HMode::LowEntropy]) } else { *hr.pick(&[HMode::Good, HMode::SameTag, HMode::Identity]) };
        let cfg = Cfg { elem: ElemKind::TrHeap, bh: Bh::new(mode, hr.below(3)), cap: usize::MAX, check_every: 1, cursor_every: 1, focus: "C07", ledger_only: false };
        // build the state once to learn the prefix
        let mut s: Sess<T, T> = Sess::new(&cfg);
        let mut next = 1000u64;
        let built = crate::sweep::chain_state_pub(&mut s, state, size, &mut next);
        if !s.ok() {
            let tag = format!("fault-build-{}-s{}-i{}-h{}", flavour(), sh.seed, sh.index, h);
            rep.record(&cfg, &tag, s.finish(), |_| false);
            continue;
        }
        rep.bump(&format!("directed_state_{state}_{}", if built { "built" } else { "not_reached" }), 1);
        if !built {
            // consistent map, just not the wanted state: release it normally
            drop(s);
            continue;
        }
        let ops = fault_ops(&mut hr, &s, &chains, &raw_chains);
        let prefix = s.ops.clone();
        let was_split = s.mon.state().old.as_ref().map_or(false, |o| o.table.len > 0);
        let _ = s.finish();
        let per_case = if miri { 1 } else { 10 };
        let mut chosen: Vec<Op> = Vec::new();
        for _ in 0..per_case {
            chosen.push(hr.pick(&ops).clone());
        }
        for op in chosen {
            case_no += 1;
            // dry run: count callbacks
            let mut d: Sess<T, T> = Sess::new(&cfg);
            for p in &prefix {
                d.go(p.clone());
            }
            if !d.ok() {
                rep.harness_errors.push("prefix replay diverged".into());
                std::mem::forget(d);
                continue 'cases;
            }
            d.go(op.clone());
            let dry_ok = d.ok();
            let tag0 = format!("fault-{}-s{}-i{}-h{}-c{}", flavour(), sh.seed, sh.index, h, case_no);
            if !dry_ok {
                rep.record(&cfg, &tag0, d.finish(), |_| false);
                continue;
            }
            let _ = d.finish();
            // count the callbacks in exactly the window the fuse will be armed in
            let mut cnt: Sess<T, T> = Sess::new(&cfg);
            for p in &prefix {
                cnt.go(p.clone());
            }
            let counts = cnt.mon.count_callbacks(&op);
            if counts.is_some() {
                // the op completed without a fault: the map is consistent, release it normally
                // (a fault run leaks nothing either; leaking every case would exhaust memory)
                drop(cnt);
            } else {
                std::mem::forget(cnt);
            }
            let counts = match counts {
                Some(c) => c,
                None => continue,
            };
            rep.bump("fault_cases", 1);
            for kind in CB_ALL {
                let n = counts[kind as usize];
                rep.bump(&format!("callbacks_{kind:?}"), n);
                for idx in pick_indices(n, &mut hr, if miri { 2 } else { 24 }) {
                    let mut f: Sess<T, T> = Sess::new(&cfg);
                    for p in &prefix {
                        f.go(p.clone());
                    }
                    if !f.ok() {
                        std::mem::forget(f);
                        continue;
                    }
                    rep.evaluations += 1;
                    let r = f.mon.step_faulted(&op, kind, idx);
                    f.ops.push(op.clone());
                    let tag = format!("{tag0}-{kind:?}-{idx}");
                    match r {
                        Err(v) => {
                            let mut extra_ops = f.ops.clone();
                            std::mem::forget(f);
                            // the replay file records the fault point
                            extra_ops.push(Op::new(Code::FullCheck));
                            if v.prop == HARNESS {
                                rep.harness_errors.push(v.msg);
                            } else if v.hits(&rep.prop) || rep.prop == "C07" {
                                let path = write_replay(&rep.replay_dir, &rep.prop.clone(), &tag, &cfg, &extra_ops[..extra_ops.len() - 1], &v.msg, &[("kind", "fault".into()), ("fault", format!("{kind:?} {idx}"))]);
                                println!("VIOLATION property={} replay={}", rep.prop, path);
                                println!("  detail: {}", v.msg);
                                rep.violations.push((v.msg, path));
                            } else {
                                rep.direct_violation(v.prop, &tag, &v.msg, &[]);
                            }
                            continue;
                        }
                        Ok(info) => {
                            if !info.fired {
                                rep.bump("fuse_not_fired", 1);
                                let _ = f.finish();
                                continue;
                            }
                            rep.bump("faults_injected", 1);
                            rep.bump(&format!("faults_{kind:?}"), 1);
                            rep.bump("elements_lost_as_documented", info.lost as u64);
                            rep.bump("objects_leaked_on_panic", info.leaked as u64);
                            if info.split || was_split {
                                rep.bump("faults_split_state", 1);
                                rep.nontrivial.insert(digest([history_digest(&prefix), history_digest(std::slice::from_ref(&op)), kind as u64, idx]));
                            }
                        }
                    }
                    // later operations behave normally
                    // Basic calls only, judged by model equality only (rules of other properties
                    // stay non-fatal): what is asked here is whether the panic damaged the map,
                    // not whether every other contract of the crate holds.
                    let mut g = Gen::new(hr.next(), Profile::General, 64, 0, 400);
                    f.mon.focus = "C07";
                    f.mon.conserve = true;
                    for _ in 0..(if miri { 3 } else { 25 }) {
                        let key = if hr.chance(1, 2) { g.pick_key(&f.mon) } else { g.new_key(&f.mon) };
                        let o = match hr.below(20) {
                            0..=8 => Op::kv(Code::Insert, key, hr.below(1000)),
                            9..=11 => Op::k(Code::Get, key),
                            12 => Op::kv(Code::GetMut, key, hr.below(1000)),
                            13 => Op::k(Code::ContainsKey, key),
                            14..=17 => Op::k(Code::Remove, key),
                            18 => Op::k(Code::RemoveEntry, key),
                            _ => Op::new(Code::FullCheck),
                        };
                        if !f.go(o) {
                            break;
                        }
                    }
                    if let Some((v, _)) = f.viol.take() {
                        let opsv = f.ops.clone();
                        std::mem::forget(f);
                        if v.prop == HARNESS {
                            rep.harness_errors.push(v.msg);
                            continue;
                        }
                        // control: the same operations without the fault. If they misbehave as
                        // well, the panic is not what broke the map: that is the other
                        // property's finding, not C07's.
                        let n_pre = prefix.len() + 1;
                        // control 1: everything, the faulted call executed without the fault;
                        // control 2: the faulted call left out (after most faults the map is in
                        // exactly its pre-call state)
                        let mut ctl: Sess<T, T> = Sess::new(&cfg);
                        ctl.mon.focus = "C07";
                        for o in &opsv {
                            if !ctl.go(o.clone()) {
                                break;
                            }
                        }
                        if ctl.viol.is_none() {
                            let _ = ctl.finish();
                            ctl = Sess::new(&cfg);
                            ctl.mon.focus = "C07";
                            for (j, o) in opsv.iter().enumerate() {
                                if j + 1 == n_pre {
                                    continue;
                                }
                                if !ctl.go(o.clone()) {
                                    break;
                                }
                            }
                        }
                        let control_fails = ctl.viol.is_some();
                        if control_fails {
                            let cv = ctl.viol.take().unwrap().0;
                            std::mem::forget(ctl);
                            rep.bump("continuation_failures_also_without_fault", 1);
                            if cv.prop != HARNESS {
                                let e = rep.also.entry(cv.prop.to_string()).or_insert((0, String::new()));
                                e.0 += 1;
                                if e.1.is_empty() {
                                    e.1 = cv.msg.clone();
                                    println!("ALSO-OBSERVED property={} {} (with and without the injected panic)", cv.prop, cv.msg);
                                }
                            }
                            let _ = n_pre;
                            continue;
                        }
                        drop(ctl);
                        let msg = format!("after a caught panic in {kind:?} #{idx} of {}, a later operation misbehaved (the same operations are fine without the panic): [{}] {}", op.encode(), v.prop, v.msg);
                        let path = write_replay(&rep.replay_dir, "C07", &tag, &cfg, &opsv, &msg, &[("kind", "fault".into()), ("fault", format!("{kind:?} {idx} at op {}", prefix.len() + 1))]);
                        if rep.prop == "C07" {
                            println!("VIOLATION property=C07 replay={}", path);
                            println!("  detail: {}", msg);
                            rep.violations.push((msg, path));
                        } else {
                            rep.direct_violation("C07", &tag, &msg, &[]);
                        }
                        continue;
                    }
                    // drop: nothing may be dropped twice; leaks caused by the panic are tolerated
                    let map = std::mem::replace(&mut f.mon.map, griddle::HashMap::with_hasher(cfg.bh));
                    let r = catch(move || drop(map));
                    let dv = take_violations();
                    // what is left of the session holds a fresh empty map: safe to release
                    drop(f);
                    let _ = take_violations();
                    if let Err(p) = r {
                        rep.direct_violation("C07", &tag, &format!("dropping the map panicked after a caught panic in {kind:?} #{idx} of {}: {p}", op.encode()), &[]);
                    } else if let Some((_, m)) = dv.into_iter().next() {
                        rep.direct_violation("C07", &tag, &format!("{m} when dropping the map after a caught panic in {kind:?} #{idx} of {}", op.encode()), &[]);
                    }
                }
            }
            if rep.samples.len() < 3 {
                rep.sample(format!("state: {} inserts + scenario {} ({:?} hasher), op {} faulted at every index of Hash x{} Eq x{} Clone x{} Closure x{}", size, state, mode, op.encode(), counts[0], counts[1], counts[2], counts[3]));
            }
        }
    }
}

/// Replay a recorded fault case: the ops before the fault point, the faulted op, the ops after.
pub fn replay_fault(r: &Replay, path: &str) -> i32 {
    let spec = r.fields.get("fault").cloned().unwrap_or_default();
    let parts: Vec<&str> = spec.split_whitespace().collect();
    let kind = match parts.first().copied() {
        Some("Hash") => Cb::Hash,
        Some("Eq") => Cb::Eq,
        Some("Clone") => Cb::Clone,
        Some("Closure") => Cb::Closure,
        _ => {
            println!("replay: cannot parse fault spec {spec:?}");
            return 2;
        }
    };
    let idx: u64 = parts.get(1).and_then(|x| x.parse().ok()).unwrap_or(1);
    let at: usize = if parts.len() >= 5 { parts[4].parse().unwrap_or(r.ops.len()) } else { r.ops.len() };
    let mut cfg = r.cfg.clone();
    cfg.elem = ElemKind::TrHeap;
    cfg.focus = "C07";
    let mut s: Sess<T, T> = Sess::new(&cfg);
    for op in &r.ops[..at.saturating_sub(1).min(r.ops.len())] {
        s.go(op.clone());
    }
    if let Some((v, n)) = &s.viol {
        println!("VIOLATION property={} replay={}", v.prop, path);
        println!("  detail: before the fault point, at op {}: {}", n, v.msg);
        std::mem::forget(s);
        return 1;
    }
    let op = &r.ops[at - 1];
    match s.mon.step_faulted(op, kind, idx) {
        Err(v) => {
            println!("VIOLATION property=C07 replay={}", path);
            println!("  detail: {}", v.msg);
            std::mem::forget(s);
            return 1;
        }
        Ok(info) => println!("fault {kind:?} #{idx} in {}: fired={} lost={} leaked={}", op.encode(), info.fired, info.lost, info.leaked),
    }
    s.mon.focus = "C07";
    s.mon.conserve = true;
    for op in &r.ops[at..] {
        if !s.go(op.clone()) {
            break;
        }
    }
    if let Some((v, n)) = s.viol.take() {
        println!("VIOLATION property=C07 replay={}", path);
        println!("  detail: after the caught panic, at op {}: [{}] {}", n, v.prop, v.msg);
        std::mem::forget(s);
        return 1;
    }
    std::mem::forget(s);
    println!("replay: no violation");
    0
}
