//! Shared plumbing: PRNG, object ledger, tracked element type, panic fuse, deterministic hashers,
//! counting/fault-injecting global allocator, panic capture.
//!
//! All monitor state is thread-local: every monitor runs on exactly one thread, so the monitors
//! themselves cannot race with the state they shadow.

use std::alloc::{GlobalAlloc, Layout, System};
use std::cell::{Cell, RefCell};
use std::hash::{BuildHasher, Hash, Hasher};

// ------------------------------------------------------------------------------------------
// PRNG
// ------------------------------------------------------------------------------------------

#[derive(Clone)]
pub struct Rng(pub u64);

pub fn mix(mut z: u64) -> u64 {
    z = z.wrapping_add(0x9E37_79B9_7F4A_7C15);
    z = (z ^ (z >> 30)).wrapping_mul(0xBF58_476D_1CE4_E5B9);
    z = (z ^ (z >> 27)).wrapping_mul(0x94D0_49BB_1331_11EB);
    z ^ (z >> 31)
}

impl Rng {
    pub fn new(seed: u64) -> Self {
        Rng(mix(seed ^ 0xA5A5_5A5A_DEAD_BEEF))
    }
    pub fn next(&mut self) -> u64 {
        self.0 = self.0.wrapping_add(0x9E37_79B9_7F4A_7C15);
        let mut z = self.0;
        z = (z ^ (z >> 30)).wrapping_mul(0xBF58_476D_1CE4_E5B9);
        z = (z ^ (z >> 27)).wrapping_mul(0x94D0_49BB_1331_11EB);
        z ^ (z >> 31)
    }
    /// Uniform in 0..n (n > 0).
    pub fn below(&mut self, n: u64) -> u64 {
        debug_assert!(n > 0);
        self.next() % n
    }
    pub fn usize(&mut self, n: usize) -> usize {
        self.below(n as u64) as usize
    }
    pub fn range(&mut self, lo: u64, hi_incl: u64) -> u64 {
        lo + self.below(hi_incl - lo + 1)
    }
    pub fn chance(&mut self, num: u64, den: u64) -> bool {
        self.below(den) < num
    }
    pub fn pick<'a, T>(&mut self, xs: &'a [T]) -> &'a T {
        &xs[self.usize(xs.len())]
    }
    pub fn fork(&mut self) -> Rng {
        Rng::new(self.next())
    }
}

// ------------------------------------------------------------------------------------------
// Violation sink (monitors inside Hash/Eq/Drop must never panic: they append here)
// ------------------------------------------------------------------------------------------

thread_local! {
    static VIOLS: RefCell<Vec<(&'static str, String)>> = const { RefCell::new(Vec::new()) };
}

/// Record a violation attributed to property `prop` from inside user-code callbacks.
pub fn note_violation(prop: &'static str, msg: String) {
    // try_with: may be called from a Drop during thread teardown
    let _ = VIOLS.try_with(|v| {
        if let Ok(mut v) = v.try_borrow_mut() {
            if v.len() < 64 {
                v.push((prop, msg));
            }
        }
    });
}

pub fn take_violations() -> Vec<(&'static str, String)> {
    VIOLS.with(|v| std::mem::take(&mut *v.borrow_mut()))
}

// ------------------------------------------------------------------------------------------
// Object ledger
// ------------------------------------------------------------------------------------------

#[derive(Clone, Copy, PartialEq, Eq, Debug)]
pub enum Life {
    Live,
    Dropped,
    /// deliberately leaked with mem::forget by the harness
    Forgotten,
}

pub struct Ledger {
    pub states: Vec<Life>,
    pub live: usize,
    pub born: u64,
    pub dropped: u64,
    pub enabled: bool,
}

thread_local! {
    static LEDGER: RefCell<Ledger> = const { RefCell::new(Ledger { states: Vec::new(), live: 0, born: 0, dropped: 0, enabled: true }) };
}

pub fn ledger_reset() {
    LEDGER.with(|l| {
        let mut l = l.borrow_mut();
        l.states.clear();
        l.states.push(Life::Dropped); // id 0 is never a real object
        l.live = 0;
    });
}

/// With tracking off the ledger keeps no per-object state (so that leak detectors are not
/// blinded by our own bookkeeping); ids are still unique.
pub fn ledger_set_enabled(on: bool) {
    LEDGER.with(|l| l.borrow_mut().enabled = on);
}

fn ledger_born() -> u64 {
    LEDGER.with(|l| {
        let mut l = l.borrow_mut();
        if l.states.is_empty() {
            l.states.push(Life::Dropped);
        }
        l.born += 1;
        l.live += 1;
        l.states.push(Life::Live);
        (l.states.len() - 1) as u64
    })
}

pub fn ledger_live() -> usize {
    LEDGER.with(|l| l.borrow().live)
}

pub fn ledger_counts() -> (u64, u64) {
    LEDGER.with(|l| {
        let l = l.borrow();
        (l.born, l.dropped)
    })
}

pub fn ledger_state(id: u64) -> Option<Life> {
    LEDGER.with(|l| l.borrow().states.get(id as usize).copied())
}

/// Mark objects as deliberately leaked (they were inside an iterator that the harness forgot).
pub fn ledger_forget(id: u64) {
    LEDGER.with(|l| {
        let mut l = l.borrow_mut();
        if let Some(s) = l.states.get_mut(id as usize) {
            if *s == Life::Live {
                *s = Life::Forgotten;
                l.live -= 1;
            }
        }
    });
}

/// Ids that are still live (for leak reports).
pub fn ledger_live_ids(limit: usize) -> Vec<u64> {
    LEDGER.with(|l| {
        l.borrow()
            .states
            .iter()
            .enumerate()
            .filter(|(_, s)| **s == Life::Live)
            .map(|(i, _)| i as u64)
            .take(limit)
            .collect()
    })
}

// ------------------------------------------------------------------------------------------
// Panic fuse (C07)
// ------------------------------------------------------------------------------------------

#[derive(Clone, Copy, PartialEq, Eq, Debug)]
pub enum Cb {
    Hash = 0,
    Eq = 1,
    Clone = 2,
    Closure = 3,
}
pub const CB_ALL: [Cb; 4] = [Cb::Hash, Cb::Eq, Cb::Clone, Cb::Closure];

thread_local! {
    static FUSE_COUNT: [Cell<u64>; 4] = const { [Cell::new(0), Cell::new(0), Cell::new(0), Cell::new(0)] };
    // (kind, fire at this count); kind 255 = disarmed
    static FUSE_ARM: Cell<(u8, u64)> = const { Cell::new((255, 0)) };
    static FUSE_FIRED: Cell<bool> = const { Cell::new(false) };
    static FUSE_COUNTING: Cell<bool> = const { Cell::new(false) };
}

pub const FUSE_MSG: &str = "verif-injected-fault";

thread_local! {
    // keys handed to a retain predicate, in call order (survives the unwind of a faulted call)
    static VISITED: RefCell<Vec<u64>> = const { RefCell::new(Vec::new()) };
}
pub fn visited_reset() {
    VISITED.with(|v| v.borrow_mut().clear());
}
pub fn visited_push(k: u64) {
    VISITED.with(|v| v.borrow_mut().push(k));
}
pub fn visited_take() -> Vec<u64> {
    VISITED.with(|v| std::mem::take(&mut *v.borrow_mut()))
}

#[inline]
pub fn tick(kind: Cb) {
    if !FUSE_COUNTING.with(|c| c.get()) {
        return;
    }
    let n = FUSE_COUNT.with(|c| {
        let n = c[kind as usize].get() + 1;
        c[kind as usize].set(n);
        n
    });
    let (k, at) = FUSE_ARM.with(|a| a.get());
    if k == kind as u8 && at == n {
        FUSE_ARM.with(|a| a.set((255, 0)));
        FUSE_FIRED.with(|f| f.set(true));
        panic!("{}", FUSE_MSG);
    }
}

/// Start counting callbacks (counters zeroed); optionally arm the fuse.
pub fn fuse_begin(arm: Option<(Cb, u64)>) {
    FUSE_COUNT.with(|c| c.iter().for_each(|x| x.set(0)));
    FUSE_FIRED.with(|f| f.set(false));
    FUSE_ARM.with(|a| a.set(arm.map_or((255, 0), |(k, n)| (k as u8, n))));
    FUSE_COUNTING.with(|c| c.set(true));
}

/// Stop counting; returns (per-kind counts, fired).
pub fn fuse_end() -> ([u64; 4], bool) {
    FUSE_COUNTING.with(|c| c.set(false));
    FUSE_ARM.with(|a| a.set((255, 0)));
    let counts = FUSE_COUNT.with(|c| [c[0].get(), c[1].get(), c[2].get(), c[3].get()]);
    (counts, FUSE_FIRED.with(|f| f.get()))
}

// ------------------------------------------------------------------------------------------
// Element trait + tracked type
// ------------------------------------------------------------------------------------------

/// Element abstraction so the monitors are generic over plain and tracked element types.
pub trait El: Hash + Eq + Clone + std::fmt::Debug + Default + 'static {
    const TRACKED: bool;
    const HEAP: bool;
    fn mk(val: u64) -> Self;
    fn val(&self) -> u64;
    fn id(&self) -> u64;
    fn set_val(&mut self, v: u64);
    const NAME: &'static str;
}

impl El for u64 {
    const TRACKED: bool = false;
    const HEAP: bool = false;
    const NAME: &'static str = "u64";
    fn mk(val: u64) -> Self {
        val
    }
    fn val(&self) -> u64 {
        *self
    }
    fn id(&self) -> u64 {
        0
    }
    fn set_val(&mut self, v: u64) {
        *self = v;
    }
}

/// A large plain element (512 bytes): per-call work must not depend on the element size.
#[derive(Clone, PartialEq, Eq, Hash)]
pub struct Big {
    val: u64,
    pad: [u64; 63],
}
impl std::fmt::Debug for Big {
    fn fmt(&self, f: &mut std::fmt::Formatter<'_>) -> std::fmt::Result {
        write!(f, "{}", self.val)
    }
}
impl Default for Big {
    fn default() -> Self {
        Big::mk(0)
    }
}
impl El for Big {
    const TRACKED: bool = false;
    const HEAP: bool = false;
    const NAME: &'static str = "big-512B";
    fn mk(val: u64) -> Self {
        Big { val, pad: [val ^ 0x5555; 63] }
    }
    fn val(&self) -> u64 {
        self.val
    }
    fn id(&self) -> u64 {
        0
    }
    fn set_val(&mut self, v: u64) {
        self.val = v;
        self.pad = [v ^ 0x5555; 63];
    }
}

const CANARY: u64 = 0xC0FF_EE00_C0FF_EE00;

/// Tracked element. `Hash`/`Eq` use `val` only, so two objects with equal `val` and different
/// `id` are "the same key" and the model can say which *object* the map must be holding.
pub struct Tr<const HEAP: bool> {
    val: u64,
    id: u64,
    guard: u64,
    canary: Option<Box<u64>>,
}

impl<const HEAP: bool> Tr<HEAP> {
    #[inline]
    fn check(&self, what: &'static str) {
        if self.guard != CANARY ^ self.id {
            note_violation(
                "C05",
                format!("{what} on an object whose in-line canary is broken (id field {})", self.id),
            );
            return;
        }
        match ledger_state(self.id) {
            Some(Life::Live) => {}
            s => note_violation(
                "C05",
                format!("{what} on object id {} val {} that is not live ({s:?})", self.id, self.val),
            ),
        }
        if HEAP {
            match &self.canary {
                Some(b) if **b == CANARY ^ self.id => {}
                _ => note_violation("C05", format!("{what}: heap canary of object id {} broken", self.id)),
            }
        }
    }
}

impl<const HEAP: bool> El for Tr<HEAP> {
    const TRACKED: bool = true;
    const HEAP: bool = HEAP;
    const NAME: &'static str = if HEAP { "tracked-heap" } else { "tracked-inline" };
    fn mk(val: u64) -> Self {
        let id = ledger_born();
        Tr {
            val,
            id,
            guard: CANARY ^ id,
            canary: if HEAP { Some(Box::new(CANARY ^ id)) } else { None },
        }
    }
    fn val(&self) -> u64 {
        self.check("read");
        self.val
    }
    fn id(&self) -> u64 {
        self.id
    }
    fn set_val(&mut self, v: u64) {
        self.check("write");
        self.val = v;
    }
}

impl<const HEAP: bool> Default for Tr<HEAP> {
    fn default() -> Self {
        Self::mk(0)
    }
}

impl<const HEAP: bool> Hash for Tr<HEAP> {
    fn hash<H: Hasher>(&self, state: &mut H) {
        tick(Cb::Hash);
        self.check("hash");
        state.write_u64(self.val);
    }
}

impl<const HEAP: bool> PartialEq for Tr<HEAP> {
    fn eq(&self, other: &Self) -> bool {
        tick(Cb::Eq);
        self.check("eq(lhs)");
        other.check("eq(rhs)");
        self.val == other.val
    }
}
impl<const HEAP: bool> Eq for Tr<HEAP> {}

impl<const HEAP: bool> Clone for Tr<HEAP> {
    fn clone(&self) -> Self {
        tick(Cb::Clone);
        self.check("clone");
        Self::mk(self.val)
    }
}

impl<const HEAP: bool> std::fmt::Debug for Tr<HEAP> {
    fn fmt(&self, f: &mut std::fmt::Formatter<'_>) -> std::fmt::Result {
        self.check("debug");
        write!(f, "{}", self.val)
    }
}

impl<const HEAP: bool> Drop for Tr<HEAP> {
    fn drop(&mut self) {
        if self.guard != CANARY ^ self.id {
            note_violation("C06", format!("drop of an object with a broken in-line canary (id field {})", self.id));
            // whatever the heap-canary field holds, it is not ours to free
            if let Some(b) = self.canary.take() {
                std::mem::forget(b);
            }
            return;
        }
        let id = self.id;
        let mut double = false;
        let _ = LEDGER.try_with(|l| {
            if let Ok(mut l) = l.try_borrow_mut() {
                match l.states.get(id as usize).copied() {
                    Some(Life::Live) => {
                        l.states[id as usize] = Life::Dropped;
                        l.live -= 1;
                        l.dropped += 1;
                        drop(l);
                        // a destructor that panics (armed for exactly one object, one shot)
                        if DROP_BOMB.try_with(|b| b.get() == id).unwrap_or(false) && !std::thread::panicking() {
                            let _ = DROP_BOMB.try_with(|b| b.set(0));
                            panic!("{}", DROP_BOMB_MSG);
                        }
                    }
                    s => {
                        drop(l);
                        note_violation("C06", format!("object id {id} dropped while in state {s:?} (double drop)"));
                        // the ledger has the finding; freeing the heap canary a second time
                        // would only make the allocator abort before it can be reported
                        double = true;
                    }
                }
            }
        });
        if double {
            if let Some(b) = self.canary.take() {
                std::mem::forget(b);
            }
        }
    }
}

// ------------------------------------------------------------------------------------------
// Deterministic, counting hashers
// ------------------------------------------------------------------------------------------

#[derive(Clone, Copy, PartialEq, Eq, Debug)]
pub enum HMode {
    /// well distributed
    Good,
    /// hash = key: bucket order follows key order
    Identity,
    /// everything collides completely
    Const,
    /// same start position, different 7-bit tags: long probe chains
    SameGroup,
    /// different positions, same tag: many Eq calls
    SameTag,
    /// only four distinct hashes
    LowEntropy,
    /// well distributed, but `BuildHasher::hash_one` is overridden with a *different* function
    /// than build_hasher + hash + finish (a one-shot fast path, as some hashers have): a table
    /// that mixes the two ways of hashing loses its elements. Only used by workloads that never
    /// hand precomputed hashes to the map (a map is free to use either way consistently).
    OneShot,
}
pub const HMODES: [HMode; 6] = [
    HMode::Good,
    HMode::Identity,
    HMode::Const,
    HMode::SameGroup,
    HMode::SameTag,
    HMode::LowEntropy,
];

thread_local! {
    static HASHES: Cell<u64> = const { Cell::new(0) };
}
pub fn hash_count() -> u64 {
    HASHES.with(|h| h.get())
}

#[derive(Clone, Copy, Debug, PartialEq, Eq)]
pub struct Bh {
    pub mode: HMode,
    pub seed: u64,
}

impl Default for Bh {
    fn default() -> Self {
        Bh { mode: HMode::Good, seed: 0 }
    }
}

impl Bh {
    pub fn new(mode: HMode, seed: u64) -> Self {
        Bh { mode, seed }
    }
    /// The hash this builder assigns to a key value (computed without touching the counters).
    pub fn hash_of(&self, val: u64) -> u64 {
        finish(self.mode, self.seed, val)
    }
}

fn finish(mode: HMode, seed: u64, acc: u64) -> u64 {
    match mode {
        HMode::Good => mix(acc ^ seed),
        // position bits follow the key, tag bits are spread (otherwise every tag would be 0)
        HMode::Identity => (acc.wrapping_add(seed & 0xff) & 0x01FF_FFFF_FFFF_FFFF) | (mix(acc) & 0xFE00_0000_0000_0000),
        HMode::Const => seed & 0xffff,
        // top 7 bits (the control tag) vary, low bits (start position) fixed
        HMode::SameGroup => (mix(acc ^ seed) & 0xFE00_0000_0000_0000) | 5,
        // low bits vary, top 7 bits fixed
        HMode::SameTag => (mix(acc ^ seed) & 0x01FF_FFFF_FFFF_FFFF) | 0x5400_0000_0000_0000,
        HMode::LowEntropy => mix((acc % 4) ^ seed),
        HMode::OneShot => mix(acc ^ seed),
    }
}

pub struct BhHasher {
    mode: HMode,
    seed: u64,
    acc: u64,
}

impl Hasher for BhHasher {
    fn finish(&self) -> u64 {
        finish(self.mode, self.seed, self.acc)
    }
    fn write(&mut self, bytes: &[u8]) {
        for &b in bytes {
            self.acc = self.acc.rotate_left(8) ^ (b as u64);
        }
    }
    fn write_u64(&mut self, i: u64) {
        self.acc = i;
    }
}

impl BuildHasher for Bh {
    type Hasher = BhHasher;
    fn build_hasher(&self) -> BhHasher {
        HASHES.with(|h| h.set(h.get() + 1));
        BhHasher { mode: self.mode, seed: self.seed, acc: 0 }
    }
    fn hash_one<T: Hash>(&self, x: T) -> u64
    where
        Self: Sized,
    {
        let mut h = self.build_hasher();
        x.hash(&mut h);
        let v = h.finish();
        if self.mode == HMode::OneShot {
            v ^ 0x9E37_79B9_7F4A_7C15
        } else {
            v
        }
    }
}

// ------------------------------------------------------------------------------------------
// Global allocator: counts table allocations, can fail one on demand
// ------------------------------------------------------------------------------------------
//
// hashbrown allocates its tables with alignment max(align_of::<T>(), Group::WIDTH); with the
// SSE2 group that is >= 16, while everything the harness itself allocates (Vec, Box<u64>,
// BTreeMap, String) has alignment <= 8. So "alignment >= 16" identifies table allocations
// without any arming protocol. Under Miri the generic 8-byte group is used and the
// allocation-based oracles are switched off (see `alloc_oracles_available`).

pub struct CountingAlloc;

thread_local! {
    static T_ALLOCS: Cell<u64> = const { Cell::new(0) };
    static T_DEALLOCS: Cell<u64> = const { Cell::new(0) };
    static T_LIVE: Cell<i64> = const { Cell::new(0) };
    // fail the n-th table allocation from now (0 = off)
    static T_FAIL_IN: Cell<u64> = const { Cell::new(0) };
    static T_FAILED: Cell<u64> = const { Cell::new(0) };
}

const TABLE_ALIGN: usize = 16;

unsafe impl GlobalAlloc for CountingAlloc {
    unsafe fn alloc(&self, layout: Layout) -> *mut u8 {
        if layout.align() >= TABLE_ALIGN {
            let fail = T_FAIL_IN
                .try_with(|f| {
                    let n = f.get();
                    if n == 0 {
                        false
                    } else {
                        f.set(n - 1);
                        n == 1
                    }
                })
                .unwrap_or(false);
            if fail {
                let _ = T_FAILED.try_with(|f| f.set(f.get() + 1));
                return std::ptr::null_mut();
            }
            let p = System.alloc(layout);
            if !p.is_null() {
                let _ = T_ALLOCS.try_with(|a| a.set(a.get() + 1));
                let _ = T_LIVE.try_with(|a| a.set(a.get() + 1));
            }
            return p;
        }
        System.alloc(layout)
    }
    unsafe fn dealloc(&self, ptr: *mut u8, layout: Layout) {
        if layout.align() >= TABLE_ALIGN {
            let _ = T_DEALLOCS.try_with(|a| a.set(a.get() + 1));
            let _ = T_LIVE.try_with(|a| a.set(a.get() - 1));
        }
        System.dealloc(ptr, layout)
    }
}

pub fn table_allocs() -> u64 {
    T_ALLOCS.with(|a| a.get())
}
pub fn table_deallocs() -> u64 {
    T_DEALLOCS.with(|a| a.get())
}
pub fn table_live() -> i64 {
    T_LIVE.with(|a| a.get())
}
pub fn fail_table_alloc_in(n: u64) {
    T_FAIL_IN.with(|f| f.set(n));
}
pub fn failed_allocs() -> u64 {
    T_FAILED.with(|f| f.get())
}

/// Table allocations are recognisable by alignment only with the 16-byte SSE2 group.
pub fn alloc_oracles_available() -> bool {
    cfg!(all(target_arch = "x86_64", not(miri)))
}

// ------------------------------------------------------------------------------------------
// Panic capture
// ------------------------------------------------------------------------------------------

thread_local! {
    static LAST_PANIC: RefCell<Option<String>> = const { RefCell::new(None) };
    static QUIET: Cell<bool> = const { Cell::new(true) };
}

pub fn install_panic_hook() {
    let default = std::panic::take_hook();
    std::panic::set_hook(Box::new(move |info| {
        let msg = if let Some(s) = info.payload().downcast_ref::<&str>() {
            (*s).to_string()
        } else if let Some(s) = info.payload().downcast_ref::<String>() {
            s.clone()
        } else {
            "<non-string panic>".to_string()
        };
        let loc = info
            .location()
            .map(|l| {
                // strip machine-specific prefixes so that transcripts are comparable
                let f = l.file();
                let f = f.rsplit("/src/").next().unwrap_or(f);
                format!("{}:{}", f, l.line())
            })
            .unwrap_or_default();
        let _ = LAST_PANIC.try_with(|p| {
            if let Ok(mut p) = p.try_borrow_mut() {
                *p = Some(format!("{msg} @ {loc}"));
            }
        });
        // a panic that will abort the process (non-unwinding, or a second panic while unwinding)
        // must leave a trace for the driver's crash report
        if msg.contains("unsafe precondition") || msg.contains("cannot unwind") || msg.contains("unreachable_unchecked") {
            eprintln!("FATAL panic: {msg} @ {loc}");
        }
        if !QUIET.try_with(|q| q.get()).unwrap_or(false) {
            default(info);
        }
    }));
}

pub fn set_quiet_panics(q: bool) {
    QUIET.with(|c| c.set(q));
}

pub fn take_panic() -> Option<String> {
    LAST_PANIC.with(|p| p.borrow_mut().take())
}

/// Run `f`, catching panics; returns Err(message) on panic.
pub fn catch<R>(f: impl FnOnce() -> R) -> Result<R, String> {
    let _ = take_panic();
    match std::panic::catch_unwind(std::panic::AssertUnwindSafe(f)) {
        Ok(r) => Ok(r),
        Err(_) => Err(take_panic().unwrap_or_else(|| "<panic>".to_string())),
    }
}

/// FNV-style digest used for history identity / contents digests.
pub fn digest(words: impl IntoIterator<Item = u64>) -> u64 {
    let mut h = 0xcbf2_9ce4_8422_2325u64;
    for w in words {
        h = mix(h ^ w);
    }
    h
}

/// Set when a leak detector watches the run: the generators then never `mem::forget` iterators.
pub static NOFORGET: std::sync::atomic::AtomicBool = std::sync::atomic::AtomicBool::new(false);
pub fn noforget() -> bool {
    NOFORGET.load(std::sync::atomic::Ordering::Relaxed)
}

thread_local! {
    static DROP_BOMB: Cell<u64> = const { Cell::new(0) };
}
pub const DROP_BOMB_MSG: &str = "verif-drop-bomb";
/// Make the destructor of the object with this id panic once (0 disarms).
pub fn set_drop_bomb(id: u64) {
    DROP_BOMB.with(|b| b.set(id));
}
pub fn drop_bomb_armed() -> bool {
    DROP_BOMB.with(|b| b.get() != 0)
}

// ------------------------------------------------------------------------------------------
// hang watchdog: a call that never returns (e.g. a probe loop on a corrupted table) must not
// stall the shard until the driver's wall-clock limit
// ------------------------------------------------------------------------------------------

pub static HEARTBEAT: std::sync::atomic::AtomicU64 = std::sync::atomic::AtomicU64::new(0);

#[inline]
pub fn heartbeat() {
    HEARTBEAT.fetch_add(1, std::sync::atomic::Ordering::Relaxed);
}

pub const HANG_EXIT: i32 = 86;

/// Exit with status 86 if no monitor step / case completes for `secs` seconds.
pub fn spawn_hang_watchdog(secs: u64) {
    if secs == 0 || cfg!(miri) {
        return;
    }
    std::thread::spawn(move || {
        let mut last = HEARTBEAT.load(std::sync::atomic::Ordering::Relaxed);
        let mut idle = 0u64;
        loop {
            std::thread::sleep(std::time::Duration::from_secs(1));
            let now = HEARTBEAT.load(std::sync::atomic::Ordering::Relaxed);
            if now == last {
                idle += 1;
                if idle >= secs {
                    eprintln!("FATAL hang: no call completed for {secs} s (a call into the map never returned)");
                    std::process::exit(HANG_EXIT);
                }
            } else {
                idle = 0;
                last = now;
            }
        }
    });
}
