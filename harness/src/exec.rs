//! Execution of the non-chain map ops against the real map and the model.

use crate::base::*;
use crate::mon::*;
use crate::ops::*;
use crate::{m, viol};
use griddle::verif::{Location, State};
use griddle::HashMap;
use std::collections::BTreeMap;

fn push_v<V: El>(o: &mut Obs, v: &V) {
    o.push(1);
    o.push(v.val());
    o.push(v.id());
}
fn push_kv<K: El, V: El>(o: &mut Obs, k: &K, v: &V) {
    o.push(1);
    o.push(k.val());
    o.push(k.id());
    o.push(v.val());
    o.push(v.id());
}

pub fn bh_from_code(code: u64) -> Bh {
    if code >= 1 << 40 {
        return Bh::new(HMode::OneShot, code - (1 << 40));
    }
    Bh::new(HMODES[(code % 6) as usize], code / 6)
}
pub fn bh_to_code(bh: &Bh) -> u64 {
    match HMODES.iter().position(|x| *x == bh.mode) {
        Some(m) => bh.seed * 6 + m as u64,
        None => (1 << 40) + bh.seed,
    }
}

impl<K: El, V: El> Mon<K, V> {
    pub fn exec(&mut self, op: &Op, st0: &State, loc0: Option<Location>) -> Res<Out> {
        use Code::*;
        let mut out = Out::new();
        if !matches!(op.code, Probe | Reserve | TryReserve) {
            self.promised = 0;
        }
        let k = op.k;
        let loc = loc0.unwrap_or(Location::Absent);
        let present = self.model.contains_key(&k);
        if loc0.is_some() && present != (loc != Location::Absent) {
            viol!(class_prop(op.code), "key {} is {} in the model but the table search says {:?} before {}", k, if present { "present" } else { "absent" }, loc, op.encode());
        }
        match op.code {
            Insert => {
                let key = K::mk(k);
                let val = V::mk(op.v);
                let (kid, vid) = (key.id(), val.id());
                let r = m!(out, self.map.insert(key, val));
                match r {
                    None => out.act.push(0),
                    Some(old) => push_v(&mut out.act, &old),
                }
                match self.model.get_mut(&k) {
                    Some(s) => {
                        out.exp.extend([1, s.pay, s.vid]);
                        s.vid = vid;
                        s.pay = op.v;
                        out.expect_dropped.push(kid);
                    }
                    None => {
                        out.exp.push(0);
                        self.model.insert(k, Slot { kid, vid, pay: op.v });
                    }
                }
                let effects = match loc {
                    Location::Absent => vec![Eff::AddNew],
                    Location::Old(_) => vec![Eff::OverwriteOld],
                    Location::Main(_) => vec![],
                };
                out.kind = Kind::Keyed { base_hashes: 1, add_hashes: 0, effects };
            }
            Get | GetMut | GetKeyValue | GetKeyValueMut | ContainsKey | Index | RawEntry => {
                let q = K::mk(k);
                let slot = self.model.get(&k).copied();
                let mut hashes = 1;
                match op.code {
                    Get => match m!(out, self.map.get(&q)) {
                        None => out.act.push(0),
                        Some(v) => push_v(&mut out.act, v),
                    },
                    GetMut => match m!(out, self.map.get_mut(&q)) {
                        None => out.act.push(0),
                        Some(v) => {
                            push_v(&mut out.act, v);
                            v.set_val(op.v);
                        }
                    },
                    GetKeyValue => match m!(out, self.map.get_key_value(&q)) {
                        None => out.act.push(0),
                        Some((kk, v)) => push_kv(&mut out.act, kk, v),
                    },
                    GetKeyValueMut => match m!(out, self.map.get_key_value_mut(&q)) {
                        None => out.act.push(0),
                        Some((kk, v)) => {
                            push_kv(&mut out.act, kk, v);
                            v.set_val(op.v);
                        }
                    },
                    ContainsKey => {
                        let c = m!(out, self.map.contains_key(&q));
                        out.act.push(c as u64);
                    }
                    Index => {
                        let map = &self.map;
                        let r = m!(out, catch(|| {
                            let v = &map[&q];
                            (v.val(), v.id())
                        }));
                        match r {
                            Ok((a, b)) => out.act.extend([1, a, b]),
                            Err(p) => {
                                rethrow_fuse(&p);
                                // the one documented panic
                                if slot.is_some() {
                                    viol!("C01", "indexing the present key {k} panicked: {p}");
                                }
                                self.stats.expected_panics += 1;
                                out.act.push(2)
                            }
                        }
                    }
                    RawEntry => {
                        let h = self.bh.hash_of(k);
                        let r = match op.n {
                            0 => m!(out, self.map.raw_entry().from_key(&q)),
                            1 => {
                                hashes = 0;
                                m!(out, self.map.raw_entry().from_key_hashed_nocheck(h, &q))
                            }
                            _ => {
                                hashes = 0;
                                m!(out, self.map.raw_entry().from_hash(h, |kk| kk.val() == k))
                            }
                        };
                        match r {
                            None => out.act.push(0),
                            Some((kk, v)) => push_kv(&mut out.act, kk, v),
                        }
                    }
                    _ => unreachable!(),
                }
                match (op.code, slot) {
                    (ContainsKey, s) => out.exp.push(s.is_some() as u64),
                    (Index, None) => out.exp.push(2),
                    (_, None) => out.exp.push(0),
                    (Get | GetMut | Index, Some(s)) => out.exp.extend([1, s.pay, s.vid]),
                    (_, Some(s)) => out.exp.extend([1, k, s.kid, s.pay, s.vid]),
                }
                if matches!(op.code, GetMut | GetKeyValueMut) {
                    if let Some(s) = self.model.get_mut(&k) {
                        s.pay = op.v;
                    }
                }
                drop(q);
                out.kind = Kind::Read { hashes };
            }
            Remove | RemoveEntry => {
                let q = K::mk(k);
                let slot = self.model.remove(&k);
                if op.code == Remove {
                    match m!(out, self.map.remove(&q)) {
                        None => out.act.push(0),
                        Some(v) => push_v(&mut out.act, &v),
                    }
                    match slot {
                        None => out.exp.push(0),
                        Some(s) => {
                            out.exp.extend([1, s.pay, s.vid]);
                            out.expect_dropped.push(s.kid);
                        }
                    }
                } else {
                    match m!(out, self.map.remove_entry(&q)) {
                        None => out.act.push(0),
                        Some((kk, v)) => push_kv(&mut out.act, &kk, &v),
                    }
                    match slot {
                        None => out.exp.push(0),
                        Some(s) => out.exp.extend([1, k, s.kid, s.pay, s.vid]),
                    }
                }
                drop(q);
                out.kind = Kind::Keyed { base_hashes: 1, add_hashes: 0, effects: if slot.is_some() { vec![Eff::Remove] } else { vec![] } };
            }
            Entry => self.exec_entry(op, loc, &mut out)?,
            RawEntryMut => self.exec_raw_entry(op, loc, &mut out)?,
            Iter | Keys | Values | IterMut | ValuesMut => self.exec_iter(op, &mut out)?,
            IntoIter => {
                let bh = self.bh;
                let map = std::mem::replace(&mut self.map, HashMap::with_hasher(bh));
                let total = map.len();
                let want: BTreeMap<u64, Slot> = std::mem::take(&mut self.model);
                let mut it = map.into_iter();
                let mut seen: BTreeMap<u64, (u64, u64, u64)> = BTreeMap::new();
                let mut n = 0usize;
                loop {
                    check_len("into_iter", safe_len(&it), it.size_hint(), total - n)?;
                    if (n as u64) >= op.n {
                        break;
                    }
                    match it.next() {
                        None => break,
                        Some((kk, v)) => {
                            n += 1;
                            if seen.insert(kk.val(), (kk.id(), v.val(), v.id())).is_some() {
                                viol!("C08", "into_iter yielded key {} twice", kk.val());
                            }
                        }
                    }
                }
                if n == total {
                    for _ in 0..3 {
                        if it.next().is_some() {
                            viol!("C08", "into_iter yielded an element after exhaustion");
                        }
                    }
                }
                {
                    let dbg = format!("{:?}", it);
                    let rest: Vec<(u64, u64)> = want.iter().filter(|(kk, _)| !seen.contains_key(kk)).map(|(kk, s)| (*kk, s.pay)).collect();
                    check_iter_debug("into_iter", &dbg, rest)?;
                }
                drop(it);
                for (kk, (kid, pay, vid)) in &seen {
                    match want.get(kk) {
                        Some(s) if s.kid == *kid && s.pay == *pay && s.vid == *vid => {}
                        other => viol!("C08", "into_iter yielded (key {kk}, {kid}, {pay}, {vid}) but the model has {:?}", other),
                    }
                }
                if op.n == MAXN && n != want.len() {
                    viol!("C08", "into_iter yielded {} elements, the map held {}", n, want.len());
                }
                out.act.push(n as u64);
                out.exp.push((want.len() as u64).min(op.n));
                // the remainder must have been dropped with the iterator
                for (kk, s) in &want {
                    if !seen.contains_key(kk) {
                        out.expect_dropped.push(s.kid);
                        out.expect_dropped.push(s.vid);
                    }
                }
                self.tables_base = table_live();
                out.kind = Kind::Reset;
            }
            Drain => self.exec_drain(op, &mut out)?,
            Retain => {
                let pred = Pred::parse(&op.list);
                let delta = op.v;
                let mut log: Vec<(u64, u64, u64, u64)> = Vec::new();
                m!(out, self.map.retain(|kk, v| {
                    visited_push(kk.val());
                    tick(Cb::Closure);
                    log.push((kk.val(), kk.id(), v.val(), v.id()));
                    if delta != 0 {
                        let nv = v.val().wrapping_add(delta);
                        v.set_val(nv);
                    }
                    pred.eval(kk.val())
                }));
                log.sort_unstable();
                let want: Vec<(u64, u64, u64, u64)> = self.model.iter().map(|(kk, s)| (*kk, s.kid, s.pay, s.vid)).collect();
                if log != want {
                    viol!("C09", "retain called its predicate on {:?}, the map held {:?}", abbreviate(&log), abbreviate(&want));
                }
                let mut removed = 0u64;
                let mut dropped = Vec::new();
                self.model.retain(|kk, s| {
                    if delta != 0 {
                        s.pay = s.pay.wrapping_add(delta);
                    }
                    if pred.eval(*kk) {
                        true
                    } else {
                        removed += 1;
                        dropped.push(s.kid);
                        dropped.push(s.vid);
                        false
                    }
                });
                out.expect_dropped = dropped;
                out.act.push(removed);
                out.exp.push(removed);
                out.kind = Kind::Bulk { new_keys: 0, hashes_max: Some(0), may_alloc: false };
            }
            DrainFilter => self.exec_drain_filter(op, &mut out)?,
            Extend => {
                let pairs: Vec<(u64, u64)> = op.list.chunks(2).map(|c| (c[0], c[1])).collect();
                let items: Vec<(K, V)> = pairs.iter().map(|(a, b)| (K::mk(*a), V::mk(*b))).collect();
                let ids: Vec<(u64, u64)> = items.iter().map(|(a, b)| (a.id(), b.id())).collect();
                let split_before = st0.old.as_ref().map_or(0, |o| o.table.len) as u64;
                m!(out, self.map.extend(items));
                let mut new_keys = 0;
                for ((a, b), (kid, vid)) in pairs.iter().zip(ids) {
                    match self.model.get_mut(a) {
                        Some(s) => {
                            out.expect_dropped.push(kid);
                            out.expect_dropped.push(s.vid);
                            s.vid = vid;
                            s.pay = *b;
                        }
                        None => {
                            new_keys += 1;
                            self.model.insert(*a, Slot { kid, vid, pay: *b });
                        }
                    }
                }
                let r = st0.r as u64;
                out.kind = Kind::Bulk { new_keys, hashes_max: Some(pairs.len() as u64 * (r + 1) + split_before), may_alloc: true };
            }
            ExtendHinted => {
                struct Hinted<I> {
                    it: I,
                    lo: usize,
                }
                impl<I: Iterator> Iterator for Hinted<I> {
                    type Item = I::Item;
                    fn next(&mut self) -> Option<I::Item> {
                        self.it.next()
                    }
                    fn size_hint(&self) -> (usize, Option<usize>) {
                        (self.lo, None)
                    }
                }
                let pairs: Vec<(u64, u64)> = op.list.chunks(2).map(|c| (c[0], c[1])).collect();
                let items: Vec<(K, V)> = pairs.iter().map(|(a, b)| (K::mk(*a), V::mk(*b))).collect();
                let ids: Vec<(u64, u64)> = items.iter().map(|(a, b)| (a.id(), b.id())).collect();
                let lo = op.n as usize;
                let amount = if self.map.is_empty() { lo } else { lo.saturating_add(1) / 2 };
                if reserve_must_fail(st0, amount) {
                    self.stats.overflow_args += 1;
                }
                let r = m!(out, {
                    let map = &mut self.map;
                    catch(move || map.extend(Hinted { it: items.into_iter(), lo }))
                });
                match r {
                    Ok(()) => {
                        out.act.push(0);
                        // (the iterator may have lied about its length: returning normally is
                        // not wrong in itself; a profile-dependent outcome is C17's business)
                        for ((a, b), (kid, vid)) in pairs.iter().zip(ids) {
                            match self.model.get_mut(a) {
                                Some(s) => {
                                    out.expect_dropped.push(kid);
                                    out.expect_dropped.push(s.vid);
                                    s.vid = vid;
                                    s.pay = *b;
                                }
                                None => {
                                    self.model.insert(*a, Slot { kid, vid, pay: *b });
                                }
                            }
                        }
                    }
                    Err(p) => {
                        rethrow_fuse(&p);
                        out.act.push(2);
                        if !p.contains("capacity overflow") || !reserve_may_fail(st0, amount) {
                            return Err(Viol { extra: Vec::new(), prop: "C01", more: &["C10"], msg: format!("extend from an iterator claiming at least {lo} items: undocumented panic: {p}") });
                        }
                        self.stats.expected_panics += 1;
                        for (kid, vid) in ids {
                            out.expect_dropped.push(kid);
                            out.expect_dropped.push(vid);
                        }
                    }
                }
                out.exp.push(out.act[0]);
                out.kind = Kind::Capacity;
            }
            FromIter => {
                let pairs: Vec<(u64, u64)> = op.list.chunks(2).map(|c| (c[0], c[1])).collect();
                let items: Vec<(K, V)> = pairs.iter().map(|(a, b)| (K::mk(*a), V::mk(*b))).collect();
                let mut model = BTreeMap::new();
                let mut dropped = Vec::new();
                for ((a, b), (kk, v)) in pairs.iter().zip(items.iter()) {
                    match model.get_mut(a) {
                        None => {
                            model.insert(*a, Slot { kid: kk.id(), vid: v.id(), pay: *b });
                        }
                        Some(s) => {
                            let s: &mut Slot = s;
                            dropped.push(kk.id());
                            dropped.push(s.vid);
                            s.vid = v.id();
                            s.pay = *b;
                        }
                    }
                }
                let new: HashMap<K, V, Bh> = m!(out, items.into_iter().collect());
                for s in self.model.values() {
                    dropped.push(s.kid);
                    dropped.push(s.vid);
                }
                self.map = new; // drops the previous map
                self.bh = Bh::default();
                self.model = model;
                out.expect_dropped = dropped;
                self.tables_base = table_live() - (self.map.verif_state().main.buckets > 1) as i64 - self.map.verif_state().old.is_some() as i64;
                out.kind = Kind::Other;
            }
            Clear => {
                m!(out, self.map.clear());
                for s in self.model.values() {
                    out.expect_dropped.push(s.kid);
                    out.expect_dropped.push(s.vid);
                }
                self.model.clear();
                if self.alloc_checks && out.tallocs != 0 {
                    viol!("C02", "clear allocated a table");
                }
                out.kind = Kind::Reset;
            }
            Reserve | TryReserve | ShrinkToFit | ShrinkTo | WithCapacity => self.exec_capacity(op, st0, &mut out)?,
            CloneSwap => {
                let c = m!(out, self.map.clone());
                if c.verif_state().old.is_some() {
                    // not required by any property, recorded only
                }
                if !(c == self.map) || !(self.map == c) {
                    viol!("C11", "clone() != source");
                }
                if c.len() != self.model.len() {
                    viol!("C11", "clone has {} elements, source {}", c.len(), self.model.len());
                }
                let mut newmodel = BTreeMap::new();
                for (kk, v) in c.iter() {
                    match self.model.get(&kk.val()) {
                        Some(s) if s.pay == v.val() => {
                            if K::TRACKED && (kk.id() == s.kid || v.id() == s.vid) {
                                viol!("C11", "clone shares object identity with the source for key {}", kk.val());
                            }
                            if newmodel.insert(kk.val(), Slot { kid: kk.id(), vid: v.id(), pay: v.val() }).is_some() {
                                viol!("C11", "clone holds key {} twice", kk.val());
                            }
                        }
                        other => viol!("C11", "clone holds ({}, {}) but the source model has {:?}", kk.val(), v.val(), other),
                    }
                }
                // source unchanged
                self.full_check("C11", &[], "clone (source side)")?;
                for s in self.model.values() {
                    out.expect_dropped.push(s.kid);
                    out.expect_dropped.push(s.vid);
                }
                self.map = c;
                self.model = newmodel;
                let st = self.map.verif_state();
                self.tables_base = table_live() - (st.main.buckets > 1) as i64 - st.old.is_some() as i64;
                out.kind = Kind::Capacity;
            }
            CloneFrom => {
                let dbh = bh_from_code(op.v);
                let mut dest: HashMap<K, V, Bh> = HashMap::with_capacity_and_hasher(op.n as usize, dbh);
                let mut prior: Vec<u64> = Vec::new();
                for c in op.list.chunks(2) {
                    let (kk, v) = (K::mk(c[0]), V::mk(c[1]));
                    prior.push(kk.id());
                    prior.push(v.id());
                    // duplicates in the list simply overwrite
                    dest.insert(kk, v);
                }
                let dest_split = dest.verif_state().old.is_some();
                // (kept in the monitor during the call, so that an interrupted clone_from leaves
                // its destination where the fault driver can look at it)
                self.limbo = Some(dest);
                m!(out, self.limbo.as_mut().unwrap().clone_from(&self.map));
                let dest = self.limbo.take().unwrap();
                out.act.push(dest_split as u64);
                out.exp.push(dest_split as u64);
                for id in &prior {
                    if K::TRACKED && ledger_state(*id) != Some(Life::Dropped) {
                        viol!("C11", "clone_from left a previous element of the destination alive (object {id})");
                    }
                }
                if !(dest == self.map) || !(self.map == dest) {
                    viol!("C11", "after clone_from, destination != source");
                }
                if dest.hasher() != self.map.hasher() {
                    viol!("C11", "clone_from did not adopt the source's hasher");
                }
                let mut newmodel = BTreeMap::new();
                for (kk, v) in dest.iter() {
                    match self.model.get(&kk.val()) {
                        Some(s) if s.pay == v.val() => {
                            if K::TRACKED && (kk.id() == s.kid || v.id() == s.vid) {
                                viol!("C11", "clone_from shares object identity with the source for key {}", kk.val());
                            }
                            if newmodel.insert(kk.val(), Slot { kid: kk.id(), vid: v.id(), pay: v.val() }).is_some() {
                                viol!("C11", "clone_from destination holds key {} twice", kk.val());
                            }
                        }
                        other => viol!("C11", "clone_from destination holds ({}, {}) but the source model has {:?}", kk.val(), v.val(), other),
                    }
                }
                if newmodel.len() != self.model.len() {
                    viol!("C11", "clone_from destination has {} elements, source {}", newmodel.len(), self.model.len());
                }
                // every key must be found through the destination's (adopted) hasher
                for kk in self.model.keys() {
                    let q = K::mk(*kk);
                    if dest.get(&q).is_none() {
                        viol!("C11", "lookup of key {kk} fails in the clone_from destination");
                    }
                }
                self.full_check("C11", &[], "clone_from (source side)")?;
                let mut dest = dest;
                if dest.verif_state().old.is_some() {
                    // (see `clones`: a product left mid-resize must still take an insertion)
                    let kv = self.next_fresh();
                    let (kk, v) = (K::mk(kv), V::mk(kv));
                    let dm = &mut dest;
                    if let Err(p) = catch(|| {
                        dm.insert(kk, v);
                    }) {
                        rethrow_fuse(&p);
                        std::mem::forget(dest);
                        return Err(Viol { extra: Vec::new(), prop: "C11", more: &["C01"], msg: format!("the product of clone_from cannot take an insertion: {p}") });
                    }
                    dest.remove(&K::mk(kv));
                }
                for s in self.model.values() {
                    out.expect_dropped.push(s.kid);
                    out.expect_dropped.push(s.vid);
                }
                self.map = dest;
                self.model = newmodel;
                let st = self.map.verif_state();
                self.tables_base = table_live() - (st.main.buckets > 1) as i64 - st.old.is_some() as i64;
                out.kind = Kind::Capacity;
            }
            EqSelf => {
                let c = self.map.clone();
                let e = c == self.map && self.map == c;
                out.act.push(e as u64);
                out.exp.push(1);
                drop(c);
                out.kind = Kind::Other;
            }
            DebugFmt => {
                let s = format!("{:?}", self.map);
                let parsed = parse_debug_map(&s);
                match parsed {
                    None => viol!("C14", "Debug output is not a map literal: {}", abbreviate_str(&s)),
                    Some(mut p) => {
                        p.sort_unstable();
                        let want: Vec<(u64, u64)> = self.model.iter().map(|(kk, s)| (*kk, s.pay)).collect();
                        if p != want {
                            viol!("C14", "Debug output lists {:?}, model has {:?}", abbreviate(&p), abbreviate(&want));
                        }
                    }
                }
                out.kind = Kind::Traverse;
            }
            Probe => self.exec_probe(st0, &mut out)?,
            FullCheck => {
                self.full_check("C01", &[], "explicit check")?;
                out.kind = Kind::Traverse;
            }
            _ => viol!(HARNESS, "set op {} given to the map monitor", op.encode()),
        }
        Ok(out)
    }

    fn exec_iter(&mut self, op: &Op, out: &mut Out) -> Res<()> {
        use Code::*;
        let total = self.model.len();
        let want: Vec<(u64, u64, u64, u64)> = self.model.iter().map(|(kk, s)| (*kk, s.kid, s.pay, s.vid)).collect();
        let mut got: Vec<(u64, u64, u64, u64)> = Vec::with_capacity(total);
        match op.code {
            Iter => {
                let mut it = m!(out, self.map.iter());
                let mut n = 0usize;
                let mut cloned: Option<(griddle::hash_map::Iter<'_, K, V>, usize)> = None;
                loop {
                    check_len("iter", safe_len(&it), it.size_hint(), total - n)?;
                    if n as u64 == op.n {
                        cloned = Some((it.clone(), n));
                    }
                    match it.next() {
                        None => break,
                        Some((kk, v)) => {
                            n += 1;
                            got.push((kk.val(), kk.id(), v.val(), v.id()));
                        }
                    }
                }
                for _ in 0..3 {
                    if it.next().is_some() {
                        viol!("C08", "iter yielded an element after returning None");
                    }
                    check_len("iter", safe_len(&it), it.size_hint(), 0)?;
                }
                if let Some((c, at)) = cloned {
                    let dbg = format!("{:?}", c);
                    check_iter_debug("iter", &dbg, got[at..].iter().map(|g| (g.0, g.2)).collect())?;
                    let rest: Vec<(u64, u64, u64, u64)> = c.map(|(kk, v)| (kk.val(), kk.id(), v.val(), v.id())).collect();
                    if rest[..] != got[at..] {
                        viol!("C08", "an iterator cloned after {} steps yielded {:?}, the original continued with {:?}", at, abbreviate(&rest), abbreviate(&got[at..]));
                    }
                }
                // keys() and values() enumerate in the same order as iter()
                let ks: Vec<(u64, u64)> = self.map.keys().map(|kk| (kk.val(), kk.id())).collect();
                let vs: Vec<(u64, u64)> = self.map.values().map(|v| (v.val(), v.id())).collect();
                if ks.len() != got.len() || vs.len() != got.len() {
                    viol!("C08", "keys()/values() yielded {}/{} items, iter() {}", ks.len(), vs.len(), got.len());
                }
                for i in 0..got.len() {
                    if ks[i] != (got[i].0, got[i].1) || vs[i] != (got[i].2, got[i].3) {
                        viol!("C08", "keys()/values() order differs from iter() at position {i}");
                    }
                }
                // the same enumeration through internal iteration (fold / for_each / last / count)
                let mut kf: Vec<(u64, u64)> = Vec::with_capacity(got.len());
                self.map.keys().for_each(|kk| kf.push((kk.val(), kk.id())));
                let vf: Vec<(u64, u64)> = self.map.values().fold(Vec::new(), |mut acc, v| {
                    acc.push((v.val(), v.id()));
                    acc
                });
                let mut pf: Vec<(u64, u64)> = Vec::with_capacity(got.len());
                self.map.iter().for_each(|(kk, _)| pf.push((kk.val(), kk.id())));
                if kf != ks || vf != vs || pf != ks {
                    viol!("C08", "keys()/values()/iter() driven through for_each/fold enumerate in a different order than through next(): keys().for_each gives {:?}, values() by next() pairs with keys {:?}", abbreviate(&kf), abbreviate(&ks));
                }
                if self.map.iter().count() != got.len() || self.map.keys().count() != got.len() || self.map.values().count() != got.len() {
                    viol!("C08", "count() of iter()/keys()/values() differs from the {} elements yielded by next()", got.len());
                }
                let last = self.map.iter().last().map(|(kk, v)| (kk.val(), kk.id(), v.val(), v.id()));
                if last != got.last().copied() {
                    viol!("C08", "iter().last() = {:?}, the last element yielded by next() is {:?}", last, got.last());
                }
            }
            Keys => {
                let mut it = m!(out, self.map.keys());
                let mut n = 0;
                let mut ks = Vec::new();
                loop {
                    check_len("keys", safe_len(&it), it.size_hint(), total - n)?;
                    match it.next() {
                        None => break,
                        Some(kk) => {
                            n += 1;
                            ks.push((kk.val(), kk.id()));
                        }
                    }
                }
                if it.next().is_some() || it.next().is_some() {
                    viol!("C08", "keys yielded an element after returning None");
                }
                ks.sort_unstable();
                let wk: Vec<(u64, u64)> = want.iter().map(|w| (w.0, w.1)).collect();
                if ks != wk {
                    viol!("C08", "keys() yielded {:?}, the map holds {:?}", abbreviate(&ks), abbreviate(&wk));
                }
                out.kind = Kind::Traverse;
                return Ok(());
            }
            Values => {
                let mut it = m!(out, self.map.values());
                let mut n = 0;
                let mut vs = Vec::new();
                loop {
                    check_len("values", safe_len(&it), it.size_hint(), total - n)?;
                    match it.next() {
                        None => break,
                        Some(v) => {
                            n += 1;
                            vs.push((v.val(), v.id()));
                        }
                    }
                }
                if it.next().is_some() || it.next().is_some() {
                    viol!("C08", "values yielded an element after returning None");
                }
                vs.sort_unstable();
                let mut wv: Vec<(u64, u64)> = want.iter().map(|w| (w.2, w.3)).collect();
                wv.sort_unstable();
                if vs != wv {
                    viol!("C08", "values() yielded {:?}, the map holds {:?}", abbreviate(&vs), abbreviate(&wv));
                }
                out.kind = Kind::Traverse;
                return Ok(());
            }
            IterMut => {
                let mut it = m!(out, self.map.iter_mut());
                let mut n = 0;
                loop {
                    check_len("iter_mut", safe_len(&it), it.size_hint(), total - n)?;
                    if n == total / 2 {
                        let dbg = format!("{:?}", it);
                        match parse_debug_pairs(&dbg) {
                            Some(p) if p.len() == total - n => {}
                            _ => viol!("C08", "iter_mut: Debug of the iterator does not list the {} elements still to come: {}", total - n, abbreviate_str(&dbg)),
                        }
                    }
                    match it.next() {
                        None => break,
                        Some((kk, v)) => {
                            n += 1;
                            got.push((kk.val(), kk.id(), v.val(), v.id()));
                            let nv = v.val().wrapping_add(op.v);
                            v.set_val(nv);
                        }
                    }
                }
                if it.next().is_some() || it.next().is_some() {
                    viol!("C08", "iter_mut yielded an element after returning None");
                }
                for s in self.model.values_mut() {
                    s.pay = s.pay.wrapping_add(op.v);
                }
            }
            ValuesMut => {
                let mut it = m!(out, self.map.values_mut());
                let mut n = 0;
                let mut vs = Vec::new();
                loop {
                    check_len("values_mut", safe_len(&it), it.size_hint(), total - n)?;
                    match it.next() {
                        None => break,
                        Some(v) => {
                            n += 1;
                            vs.push((v.val(), v.id()));
                            let nv = v.val().wrapping_add(op.v);
                            v.set_val(nv);
                        }
                    }
                }
                if it.next().is_some() || it.next().is_some() {
                    viol!("C08", "values_mut yielded an element after returning None");
                }
                vs.sort_unstable();
                let mut wv: Vec<(u64, u64)> = want.iter().map(|w| (w.2, w.3)).collect();
                wv.sort_unstable();
                if vs != wv {
                    viol!("C08", "values_mut() yielded {:?}, the map holds {:?}", abbreviate(&vs), abbreviate(&wv));
                }
                for s in self.model.values_mut() {
                    s.pay = s.pay.wrapping_add(op.v);
                }
                out.kind = Kind::Traverse;
                return Ok(());
            }
            _ => unreachable!(),
        }
        got.sort_unstable();
        if got != want {
            viol!("C08", "{} yielded {:?}, the map holds {:?}", op.code.name(), abbreviate(&got), abbreviate(&want));
        }
        out.kind = Kind::Traverse;
        Ok(())
    }

    fn exec_drain(&mut self, op: &Op, out: &mut Out) -> Res<()> {
        let total = self.model.len();
        let want: BTreeMap<u64, Slot> = std::mem::take(&mut self.model);
        let mut seen: BTreeMap<u64, (u64, u64, u64)> = BTreeMap::new();
        let forget = op.v == 1;
        {
            let mut it = m!(out, self.map.drain());
            let mut n = 0usize;
            loop {
                check_len("drain", safe_len(&it), it.size_hint(), total - n)?;
                if n as u64 >= op.n {
                    break;
                }
                match it.next() {
                    None => break,
                    Some((kk, v)) => {
                        n += 1;
                        if seen.insert(kk.val(), (kk.id(), v.val(), v.id())).is_some() {
                            viol!("C08", "drain yielded key {} twice", kk.val());
                        }
                    }
                }
            }
            if n == total {
                for _ in 0..3 {
                    if it.next().is_some() {
                        viol!("C08", "drain yielded an element after exhaustion");
                    }
                }
            }
            {
                let dbg = format!("{:?}", it);
                let rest: Vec<(u64, u64)> = want.iter().filter(|(kk, _)| !seen.contains_key(kk)).map(|(kk, s)| (*kk, s.pay)).collect();
                check_iter_debug("drain", &dbg, rest)?;
            }
            if forget {
                // leak-by-design: whatever the iterator still owned is never dropped
                for (kk, s) in &want {
                    if !seen.contains_key(kk) {
                        ledger_forget(s.kid);
                        ledger_forget(s.vid);
                    }
                }
                std::mem::forget(it);
            } else {
                drop(it);
                for (kk, s) in &want {
                    if !seen.contains_key(kk) {
                        out.expect_dropped.push(s.kid);
                        out.expect_dropped.push(s.vid);
                    }
                }
            }
        }
        for (kk, (kid, pay, vid)) in &seen {
            match want.get(kk) {
                Some(s) if s.kid == *kid && s.pay == *pay && s.vid == *vid => {}
                other => viol!("C08", "drain yielded (key {kk}, {kid}, {pay}, {vid}) but the model has {:?}", other),
            }
        }
        if op.n == MAXN && seen.len() != want.len() {
            viol!("C08", "drain yielded {} elements, the map held {}", seen.len(), want.len());
        }
        if self.map.len() != 0 || !self.map.is_empty() || self.map.iter().next().is_some() {
            viol!("C08", "map not empty after drain (len {})", self.map.len());
        }
        if forget && self.alloc_checks {
            // the old table (if any) was owned by the forgotten iterator: leaked by design
            let st = self.map.verif_state();
            self.tables_base = table_live() - (st.main.buckets > 1) as i64 - st.old.is_some() as i64;
        }
        out.act.push(seen.len() as u64);
        out.exp.push((want.len() as u64).min(op.n));
        out.kind = Kind::Reset;
        Ok(())
    }

    fn exec_drain_filter(&mut self, op: &Op, out: &mut Out) -> Res<()> {
        let pred = Pred::parse(&op.list);
        let delta = op.v;
        let forget = op.k == 1;
        let before: BTreeMap<u64, Slot> = self.model.clone();
        let mut log: Vec<(u64, u64, u64, u64)> = Vec::new();
        let mut yielded: Vec<(u64, u64, u64, u64)> = Vec::new();
        {
            let logref = &mut log;
            let mut it = m!(out, self.map.drain_filter(|kk, v| {
                tick(Cb::Closure);
                logref.push((kk.val(), kk.id(), v.val(), v.id()));
                if delta != 0 {
                    let nv = v.val().wrapping_add(delta);
                    v.set_val(nv);
                }
                pred.eval(kk.val())
            }));
            let mut n = 0u64;
            while n < op.n {
                let (lo, hi) = it.size_hint();
                if lo != 0 || hi.map_or(false, |h| h > before.len()) {
                    viol!("C09", "drain_filter size_hint ({lo}, {hi:?}) with {} elements", before.len());
                }
                match m!(out, it.next()) {
                    None => break,
                    Some((kk, v)) => {
                        n += 1;
                        yielded.push((kk.val(), kk.id(), v.val(), v.id()));
                    }
                }
            }
            if op.n == MAXN {
                for _ in 0..2 {
                    if it.next().is_some() {
                        viol!("C09", "drain_filter yielded an element after returning None");
                    }
                }
            }
            if forget {
                std::mem::forget(it);
            } else {
                m!(out, drop(it));
            }
        }
        // every visited element exactly once
        let mut visited = std::collections::BTreeSet::new();
        for l in &log {
            if !visited.insert(l.0) {
                viol!("C09", "drain_filter called its predicate twice on key {}", l.0);
            }
            match before.get(&l.0) {
                Some(s) if s.kid == l.1 && s.pay == l.2 && s.vid == l.3 => {}
                other => viol!("C09", "drain_filter showed its predicate (key {}, {}, {}, {}), model has {:?}", l.0, l.1, l.2, l.3, other),
            }
        }
        if !forget && visited.len() != before.len() {
            viol!("C09", "drain_filter visited {} of {} elements although it was dropped (not forgotten)", visited.len(), before.len());
        }
        // yielded = visited elements with pred true, in order; if forgotten, only a prefix
        let ysets: std::collections::BTreeSet<u64> = yielded.iter().map(|y| y.0).collect();
        if ysets.len() != yielded.len() {
            viol!("C09", "drain_filter yielded an element twice");
        }
        for y in &yielded {
            let s = match before.get(&y.0) {
                Some(s) => s,
                None => viol!("C09", "drain_filter yielded key {} which was not in the map", y.0),
            };
            if !pred.eval(y.0) {
                viol!("C09", "drain_filter yielded key {} for which the predicate is false", y.0);
            }
            if s.kid != y.1 || s.vid != y.3 || s.pay.wrapping_add(delta) != y.2 {
                viol!("C09", "drain_filter yielded (key {}, {}, {}, {}), model has {:?} (+{delta})", y.0, y.1, y.2, y.3, s);
            }
        }
        // expected survivors
        let mut removed = 0u64;
        let mut newmodel = BTreeMap::new();
        for (kk, s) in &before {
            let mut s = *s;
            let was_visited = visited.contains(kk);
            if was_visited && delta != 0 {
                s.pay = s.pay.wrapping_add(delta);
            }
            let matches = pred.eval(*kk);
            let gone = if forget { ysets.contains(kk) } else { matches };
            if gone {
                removed += 1;
                if !ysets.contains(kk) {
                    out.expect_dropped.push(s.kid);
                    out.expect_dropped.push(s.vid);
                }
            } else {
                newmodel.insert(*kk, s);
            }
        }
        if !forget {
            let nyield = before.keys().filter(|kk| pred.eval(**kk)).count() as u64;
            if op.n == MAXN && yielded.len() as u64 != nyield {
                viol!("C09", "drain_filter yielded {} elements, {} match the predicate", yielded.len(), nyield);
            }
        }
        self.model = newmodel;
        out.act.push(removed);
        out.exp.push(removed);
        out.kind = Kind::Bulk { new_keys: 0, hashes_max: Some(0), may_alloc: false };
        Ok(())
    }

    fn exec_capacity(&mut self, op: &Op, st0: &State, out: &mut Out) -> Res<()> {
        use Code::*;
        let len0 = self.map.len();
        let cap0 = self.map.capacity();
        let n = op.n as usize;
        let split0 = st0.old.is_some();
        match op.code {
            WithCapacity => {
                for s in self.model.values() {
                    out.expect_dropped.push(s.kid);
                    out.expect_dropped.push(s.vid);
                }
                self.model.clear();
                let bh = self.bh;
                let a0 = table_allocs();
                self.map = HashMap::with_capacity_and_hasher(n, bh);
                if self.map.capacity() < n {
                    viol!("C10", "with_capacity({n}) gave capacity {}", self.map.capacity());
                }
                if n == 0 && self.alloc_checks && table_allocs() != a0 {
                    viol!("C10", "with_capacity(0) allocated");
                }
                let st = self.map.verif_state();
                self.tables_base = table_live() - (st.main.buckets > 1) as i64;
                // n insertions without reallocation
                if n <= 4096 {
                    let a1 = table_allocs();
                    for _ in 0..n {
                        let kv = self.next_fresh();
                        let (kk, v) = (K::mk(kv), V::mk(kv));
                        self.model.insert(kv, Slot { kid: kk.id(), vid: v.id(), pay: kv });
                        // any key-adding call must do: vary the one used
                        if add_new_key(&mut self.map, kk, v, mix(kv ^ 0xadd) % 6) {
                            viol!("C10", "fresh key {kv} reported as present while filling with_capacity({n})");
                        }
                    }
                    if self.alloc_checks && table_allocs() != a1 {
                        viol!("C10", "with_capacity({n}) followed by {n} insertions reallocated");
                    }
                }
                out.kind = Kind::Other;
            }
            Reserve => {
                let overflow = reserve_must_fail(st0, n);
                if overflow {
                    self.stats.overflow_args += 1;
                }
                let r = m!(out, {
                    let map = &mut self.map;
                    catch(|| map.reserve(n))
                });
                match r {
                    Ok(()) => {
                        out.act.push(0);
                        if overflow {
                            viol!("C10", "reserve({n}) returned normally with len {len0} (the request overflows)");
                        }
                        if self.map.capacity() < len0.saturating_add(n) {
                            viol!("C10", "after reserve({n}) capacity() = {} < len() + n = {}", self.map.capacity(), len0.saturating_add(n));
                        }
                        self.promised = n;
                    }
                    Err(p) => {
                        rethrow_fuse(&p);
                        out.act.push(2);
                        if !(p.contains("capacity overflow") || p.contains("Hash table capacity overflow")) || !reserve_may_fail(st0, n) {
                            return Err(Viol { extra: Vec::new(), prop: "C10", more: &["C01"], msg: format!("reserve({n}) with len {len0} panicked (undocumented): {p}") });
                        }
                        self.stats.expected_panics += 1;
                    }
                }
                out.exp.push(out.act[0]);
                if self.alloc_checks && out.tallocs > 1 {
                    viol!("C02", "reserve({n}) performed {} table allocations", out.tallocs);
                }
                if !split0 && self.work_checks && out.hashes != 0 {
                    viol!("C02", "reserve({n}) on an unsplit map performed {} hash computations", out.hashes);
                }
                out.kind = Kind::Capacity;
            }
            TryReserve => {
                let overflow = reserve_must_fail(st0, n);
                if overflow {
                    self.stats.overflow_args += 1;
                }
                let inject = op.v == 1 && self.alloc_checks;
                if inject {
                    fail_table_alloc_in(1);
                }
                let f0 = failed_allocs();
                let r = m!(out, {
                    let map = &mut self.map;
                    catch(|| map.try_reserve(n))
                });
                fail_table_alloc_in(0);
                let injected = failed_allocs() != f0;
                if injected {
                    self.stats.alloc_fail_injected += 1;
                }
                match r {
                    Err(p) => {
                        rethrow_fuse(&p);
                        return Err(Viol { extra: Vec::new(), prop: "C10", more: &["C01"], msg: format!("try_reserve({n}) with len {len0} panicked: {p}") });
                    }
                    Ok(Ok(())) => {
                        out.act.push(0);
                        if overflow {
                            viol!("C10", "try_reserve({n}) returned Ok with len {len0} (the request overflows)");
                        }
                        if injected {
                            viol!("C10", "try_reserve({n}) returned Ok although its table allocation failed");
                        }
                        if self.map.capacity() < len0.saturating_add(n) {
                            viol!("C10", "after Ok from try_reserve({n}) capacity() = {} < len() + n = {}", self.map.capacity(), len0.saturating_add(n));
                        }
                        self.promised = n;
                    }
                    Ok(Err(e)) => {
                        out.act.push(3);
                        if !reserve_may_fail(st0, n) && !injected {
                            viol!("C10", "try_reserve({n}) with len {len0} failed: {e:?}");
                        }
                        if injected && !matches!(e, griddle::TryReserveError::AllocError { .. }) && !reserve_may_fail(st0, n) {
                            viol!("C10", "try_reserve({n}) reported {e:?} for a failed allocation");
                        }
                        // contents unchanged: checked by the full check below
                        self.full_check("C10", &["C01"], "failed try_reserve")?;
                    }
                }
                out.exp.push(out.act[0]);
                if self.alloc_checks && out.tallocs > 1 {
                    viol!("C02", "try_reserve({n}) performed {} table allocations", out.tallocs);
                }
                if !split0 && self.work_checks && out.hashes != 0 {
                    viol!("C02", "try_reserve({n}) on an unsplit map performed {} hash computations", out.hashes);
                }
                out.kind = Kind::Capacity;
            }
            ShrinkToFit | ShrinkTo => {
                let mcap = if op.code == ShrinkToFit { 0 } else { n };
                if op.code == ShrinkToFit {
                    m!(out, self.map.shrink_to_fit());
                } else {
                    m!(out, self.map.shrink_to(n));
                }
                let st1 = self.map.verif_state();
                if st1.main.buckets > st0.main.buckets {
                    viol!("C10", "shrink_to({mcap}) enlarged the table from {} to {} buckets", st0.main.buckets, st1.main.buckets);
                }
                let lower = len0.max(mcap.min(cap0));
                if self.map.capacity() < lower {
                    viol!("C10", "after shrink_to({mcap}) capacity() = {} < max(len, min(m, previous capacity)) = {}", self.map.capacity(), lower);
                }
                if self.alloc_checks && out.tallocs > 1 {
                    viol!("C02", "shrink performed {} table allocations", out.tallocs);
                }
                self.full_check("C10", &["C01"], "shrink")?;
                out.kind = Kind::Capacity;
            }
            _ => unreachable!(),
        }
        Ok(())
    }

    /// The C04 probe: insert capacity()-len() previously unseen keys.
    fn exec_probe(&mut self, st0: &State, out: &mut Out) -> Res<()> {
        let n = self.map.capacity() - self.map.len();
        let old0 = st0.old.as_ref().map_or(0, |o| o.table.len);
        let r = st0.r;
        // boundary coverage: how tight was the explored state
        let growth_left = st0.main.capacity - st0.main.len;
        let slack = growth_left as i64 - old0 as i64 - ((old0 + r - 1) / r) as i64;
        let si = if slack <= 0 { 0 } else if slack == 1 { 1 } else if slack == 2 { 2 } else { 3 };
        self.stats.probe_slack[si] += 1;
        self.stats.probes += 1;
        self.stats.probe_keys += n as u64;
        let a0 = table_allocs();
        let mut cap = self.map.capacity();
        let cap_limit = 1usize << 16;
        let n = n.min(cap_limit);
        // what the capacity call just before promised (C10: "the next n new keys are inserted
        // without reallocation"): a failure among those insertions is that call's as well
        let promised = std::mem::take(&mut self.promised);
        // the key-adding call used varies (insert, entry and raw-entry insertions); one probe in
        // four sticks to insert()
        // three styles: every key through insert(); every key through one other call (a defect
        // in one call's bookkeeping needs a run of that call to show); a different call per key
        let style = self.nops % 4;
        let fixed = 1 + (self.nops / 4) % 7;
        let pick = |kv: u64| match style {
            3 => 0,
            2 => fixed,
            _ => mix(kv ^ 0xadd),
        };
        for i in 0..n {
            // a panic in a key-adding call is also C01's "no call panics"
            let more: &'static [&'static str] = if i < promised { &["C10", "C01"] } else { &["C01"] };
            let kv = self.next_fresh();
            let (kk, v) = (K::mk(kv), V::mk(kv));
            self.model.insert(kv, Slot { kid: kk.id(), vid: v.id(), pay: kv });
            let map = &mut self.map;
            let how = pick(kv);
            let res = catch(|| add_new_key(map, kk, v, how));
            match res {
                Err(p) => {
                    rethrow_fuse(&p);
                    return Err(Viol { extra: Vec::new(), prop: "C04", more, msg: format!("probe insertion {} of {} (through {}) panicked: {p}", i + 1, n, ADD_HOW[(how % 8) as usize]) });
                }
                Ok(true) => viol!("C04", "probe key {kv} was reported as already present"),
                Ok(false) => {}
            }
            let c = self.map.capacity();
            if c < cap {
                viol!("C04", "capacity() decreased from {cap} to {c} during the probe (insertion {} of {})", i + 1, n);
            }
            cap = c;
            if self.alloc_checks && table_allocs() != a0 {
                return Err(Viol {
                    extra: Vec::new(),
                    prop: "C04",
                    more: if i < promised { &["C10"] } else { &[] },
                    msg: format!("probe insertion {} of {} (through {}) allocated a table (state before the probe: {:?}; promised by the preceding capacity call: {})", i + 1, n, ADD_HOW[(how % 8) as usize], st0, promised),
                });
            }
            if self.map.capacity() < self.map.len() {
                viol!("C04", "capacity() < len() during the probe");
            }
        }
        if n >= 1 && n < cap_limit {
            let st1 = self.map.verif_state();
            let pending = if self.alloc_checks { table_live() - self.tables_base > 1 } else { st1.old.is_some() };
            if pending || st1.old.is_some() {
                // does not disturb the map/model agreement: fatal only when C04 is under check
                if let Some(v) = self.soft("C04", format!("a resize is still pending after inserting capacity()-len() = {} fresh keys (state before: {:?}, after: {:?})", n, st0, st1)) {
                    return Err(v);
                }
                // the table is full and elements are still waiting: go on the same way until they
                // are moved; a call that cannot cope panics, which is C01's subject as well
                let waiting = st1.old.as_ref().map_or(0, |o| o.table.len);
                for j in 0..(waiting + 2).min(4096) {
                    let kv = self.next_fresh();
                    let (kk, v) = (K::mk(kv), V::mk(kv));
                    self.model.insert(kv, Slot { kid: kk.id(), vid: v.id(), pay: kv });
                    let map = &mut self.map;
                    let how = pick(kv);
                    if let Err(p) = catch(|| add_new_key(map, kk, v, how)) {
                        rethrow_fuse(&p);
                        return Err(Viol {
                            extra: Vec::new(),
                            prop: "C04",
                            more: &["C01"],
                            msg: format!("insertion {} after a probe that left the resize pending (through {}) panicked: {p}", j + 1, ADD_HOW[(how % 8) as usize]),
                        });
                    }
                }
            }
        }
        out.act.push(n as u64);
        out.exp.push(n as u64);
        out.kind = Kind::Bulk { new_keys: n, hashes_max: None, may_alloc: false };
        Ok(())
    }
}

pub const ADD_HOW: [&str; 8] = [
    "insert",
    "entry().or_insert",
    "VacantEntry::insert",
    "Entry::insert",
    "RawVacantEntryMut::insert",
    "raw_entry_mut().or_insert",
    "RawVacantEntryMut::insert_with_hasher",
    "RawVacantEntryMut::insert_hashed_nocheck",
];

/// Add a key through one of the key-adding calls; true if the call reported it as present.
pub fn add_new_key<K: El, V: El>(map: &mut HashMap<K, V, Bh>, kk: K, v: V, how: u64) -> bool {
    use griddle::hash_map::{Entry, RawEntryMut};
    match how % 8 {
        0 => map.insert(kk, v).is_some(),
        1 => {
            let mut present = false;
            map.entry(kk)
                .and_modify(|_| {
                    present = true;
                })
                .or_insert(v);
            present
        }
        2 => match map.entry(kk) {
            Entry::Vacant(e) => {
                e.insert(v);
                false
            }
            Entry::Occupied(_) => true,
        },
        3 => match map.entry(kk) {
            e @ Entry::Vacant(_) => {
                let _ = e.insert(v);
                false
            }
            Entry::Occupied(_) => true,
        },
        4 => match map.raw_entry_mut().from_key(&kk) {
            RawEntryMut::Vacant(e) => {
                e.insert(kk, v);
                false
            }
            RawEntryMut::Occupied(_) => true,
        },
        5 => {
            let present = map.contains_key(&kk);
            map.raw_entry_mut().from_key(&kk).or_insert(kk, v);
            present
        }
        6 => {
            let bh = *map.hasher();
            let hash = bh.hash_of(kk.val());
            let val = kk.val();
            match map.raw_entry_mut().from_hash(hash, |q| q.val() == val) {
                RawEntryMut::Vacant(e) => {
                    e.insert_with_hasher(hash, kk, v, |q| bh.hash_of(q.val()));
                    false
                }
                RawEntryMut::Occupied(_) => true,
            }
        }
        _ => {
            let bh = *map.hasher();
            let hash = bh.hash_of(kk.val());
            match map.raw_entry_mut().from_key_hashed_nocheck(hash, &kk) {
                RawEntryMut::Vacant(e) => {
                    e.insert_hashed_nocheck(hash, kk, v);
                    false
                }
                RawEntryMut::Occupied(_) => true,
            }
        }
    }
}

/// `additional` is so large that len + additional (+ headroom) cannot be represented / allocated:
/// the call must fail.
pub fn reserve_must_fail(st0: &State, n: usize) -> bool {
    let len = st0.main.len + st0.old.as_ref().map_or(0, |o| o.table.len);
    // more than isize::MAX bytes would be needed even at one byte per element
    len.checked_add(n).map_or(true, |t| t > (isize::MAX as usize))
}

/// The request is large enough that failing (overflow or allocator limit) is legitimate.
pub fn reserve_may_fail(st0: &State, n: usize) -> bool {
    let len = st0.main.len + st0.old.as_ref().map_or(0, |o| o.table.len);
    len.saturating_add(n) >= (1usize << 40)
}

/// An injected fault caught by an inner catch must keep unwinding to the fault driver.
pub fn rethrow_fuse(p: &str) {
    if p.contains(FUSE_MSG) {
        panic!("{}", FUSE_MSG);
    }
}

/// `ExactSizeIterator::len()` asserts that the two bounds of `size_hint()` agree and panics
/// otherwise; ask for it only when they do, so that an inconsistent hint is reported as what
/// it is (a C08 matter) rather than as a panic of the traversal call.
pub fn safe_len<I: ExactSizeIterator>(it: &I) -> usize {
    let (lo, hi) = it.size_hint();
    if hi == Some(lo) {
        it.len()
    } else {
        usize::MAX
    }
}

pub fn check_len(what: &str, len: usize, hint: (usize, Option<usize>), want: usize) -> Res<()> {
    if len != want || hint != (want, Some(want)) {
        viol!("C08", "{what}: len() = {len}, size_hint() = {hint:?}, but {want} elements are still to come");
    }
    Ok(())
}

pub fn abbreviate<T: std::fmt::Debug>(v: &[T]) -> String {
    if v.len() <= 12 {
        format!("{v:?}")
    } else {
        format!("{:?}… ({} items)", &v[..12], v.len())
    }
}
pub fn abbreviate_str(s: &str) -> String {
    if s.len() <= 200 {
        s.to_string()
    } else {
        format!("{}…", &s[..200])
    }
}

/// Parse `{1: 2, 3: 4}`.
pub fn parse_debug_map(s: &str) -> Option<Vec<(u64, u64)>> {
    let s = s.trim().strip_prefix('{')?.strip_suffix('}')?;
    let mut v = Vec::new();
    if s.trim().is_empty() {
        return Some(v);
    }
    for item in s.split(", ") {
        let (a, b) = item.split_once(": ")?;
        v.push((a.trim().parse().ok()?, b.trim().parse().ok()?));
    }
    Some(v)
}
/// Parse `[(1, 2), (3, 4)]`.
pub fn parse_debug_pairs(s: &str) -> Option<Vec<(u64, u64)>> {
    let s = s.trim().strip_prefix('[')?.strip_suffix(']')?;
    let mut v = Vec::new();
    if s.trim().is_empty() {
        return Some(v);
    }
    for item in s.split("), (") {
        let item = item.trim_start_matches('(').trim_end_matches(')');
        let (a, b) = item.split_once(", ")?;
        v.push((a.trim().parse().ok()?, b.trim().parse().ok()?));
    }
    Some(v)
}

/// The Debug output of a partly consumed iterator must list exactly what is still to come.
pub fn check_iter_debug(what: &str, dbg: &str, mut rest: Vec<(u64, u64)>) -> Res<()> {
    match parse_debug_pairs(dbg) {
        None => viol!("C08", "{what}: Debug output of the iterator is not a list of pairs: {}", abbreviate_str(dbg)),
        Some(mut p) => {
            p.sort_unstable();
            rest.sort_unstable();
            if p != rest {
                viol!("C08", "{what}: Debug of the iterator lists {:?}, still to come are {:?}", abbreviate(&p), abbreviate(&rest));
            }
        }
    }
    Ok(())
}

/// Parse `{1, 2}`.
pub fn parse_debug_set(s: &str) -> Option<Vec<u64>> {
    let s = s.trim().strip_prefix('{')?.strip_suffix('}')?;
    let mut v = Vec::new();
    if s.trim().is_empty() {
        return Some(v);
    }
    for item in s.split(", ") {
        v.push(item.trim().parse().ok()?);
    }
    Some(v)
}
