//! Further workloads: default-hasher / borrowed-key differential (C01), directed iterator
//! states (C08), capacity limits (C10, C17), two-sided clone divergence (C11), metamorphic
//! content-only observability (C14).

use crate::base::*;
use crate::exec::{parse_debug_map, parse_debug_set};
use crate::gen::*;
use crate::mon::*;
use crate::ops::*;
use crate::run::*;
use crate::sweep::{chain_state_pub, Sess};
use crate::work::Shard;
use griddle::verif::Location;
use griddle::{HashMap, HashSet};
use std::collections::{BTreeMap, BTreeSet};

// ------------------------------------------------------------------------------------------
// plain: the crate's default hasher, String keys looked up through &str, extend by reference
// ------------------------------------------------------------------------------------------

pub fn plain(a: &Args, rep: &mut Report) {
    let sh = Shard::from_args(a);
    let mut rng = sh.rng(0x91a1);
    for h in 0..sh.n {
        heartbeat();
        let mut hr = rng.fork();
        let mut m: HashMap<String, u64> = if hr.chance(1, 2) { HashMap::new() } else { HashMap::with_capacity(hr.usize(40)) };
        let mut c: HashMap<u64, u64> = if hr.chance(1, 2) { HashMap::new() } else { HashMap::default() };
        // a set mirroring the key set (Extend<&T>, FromIterator, Default on the set side)
        let mut hs: HashSet<u64> = if hr.chance(1, 2) { HashSet::new() } else { HashSet::default() };
        let mut model: BTreeMap<u64, u64> = BTreeMap::new();
        let keyspace = *hr.pick(&[16u64, 100, 1000]);
        let n = 50 + hr.usize(400);
        let mut split_calls = 0u64;
        let mut log: Vec<String> = Vec::new();
        let r = catch(|| -> Result<(), String> {
            for _ in 0..n {
                let k = hr.below(keyspace);
                let ks = format!("key-{k}");
                let v = hr.below(1000);
                if m.verif_state().old.is_some() {
                    split_calls += 1;
                }
                let what;
                match hr.below(12) {
                    0..=3 => {
                        what = format!("insert({k},{v})");
                        let a = m.insert(ks.clone(), v);
                        let b = c.insert(k, v);
                        let w = model.insert(k, v);
                        if a != w || b != w || hs.insert(k) != w.is_none() {
                            return Err(format!("{what}: {a:?}/{b:?} vs model {w:?}"));
                        }
                    }
                    4 => {
                        what = format!("get({k})");
                        // lookup through the borrowed form &str
                        let a = m.get(ks.as_str()).copied();
                        let b = c.get(&k).copied();
                        let w = model.get(&k).copied();
                        if a != w || b != w || m.contains_key(ks.as_str()) != w.is_some() {
                            return Err(format!("{what}: {a:?}/{b:?} vs model {w:?}"));
                        }
                    }
                    5 | 6 => {
                        what = format!("remove({k})");
                        let a = m.remove(ks.as_str());
                        let b = c.remove(&k);
                        let w = model.remove(&k);
                        if a != w || b != w || hs.remove(&k) != w.is_some() {
                            return Err(format!("{what}: {a:?}/{b:?} vs model {w:?}"));
                        }
                    }
                    7 => {
                        what = format!("entry({k}).or_insert({v}) += 1");
                        *m.entry(ks.clone()).or_insert(v) += 1;
                        *c.entry(k).or_insert(v) += 1;
                        *model.entry(k).or_insert(v) += 1;
                        hs.get_or_insert(k);
                    }
                    8 => {
                        // extend by reference (K: Copy, V: Copy)
                        let items: Vec<(u64, u64)> = (0..hr.usize(8)).map(|_| (hr.below(keyspace), hr.below(1000))).collect();
                        what = format!("extend(&{items:?})");
                        c.extend(items.iter().map(|(a, b)| (a, b)));
                        hs.extend(items.iter().map(|(a, _)| a));
                        m.extend(items.iter().map(|(a, b)| (format!("key-{a}"), *b)));
                        for (a, b) in items {
                            model.insert(a, b);
                        }
                    }
                    9 => {
                        what = "index".to_string();
                        if let Some((kk, vv)) = model.iter().next() {
                            if m[format!("key-{kk}").as_str()] != *vv || c[kk] != *vv {
                                return Err(format!("index {kk}"));
                            }
                        }
                    }
                    10 => {
                        what = "from_iter".to_string();
                        let f: HashMap<u64, u64> = model.iter().map(|(a, b)| (*a, *b)).collect();
                        if f != c || c != f || f.len() != model.len() {
                            return Err("from_iter map differs".to_string());
                        }
                        let fs: HashSet<u64> = model.keys().copied().collect();
                        if fs != hs || hs != fs || fs.len() != model.len() {
                            return Err("from_iter set differs".to_string());
                        }
                    }
                    _ if v % 5 == 0 => {
                        // IntoIterator for &mut HashMap / &HashMap
                        what = "for (_, v) in &mut map".to_string();
                        for (_, x) in &mut m {
                            *x += 3;
                        }
                        for (_, x) in &mut c {
                            *x += 3;
                        }
                        for x in model.values_mut() {
                            *x += 3;
                        }
                        let mut seen = 0usize;
                        for (kk, vv) in &c {
                            seen += 1;
                            if model.get(kk) != Some(vv) {
                                return Err(format!("for (k, v) in &map yields ({kk}, {vv}), model says {:?}", model.get(kk)));
                            }
                        }
                        if seen != model.len() {
                            return Err(format!("for (k, v) in &map yields {seen} pairs, model holds {}", model.len()));
                        }
                    }
                    _ => {
                        what = format!("get_mut({k})");
                        if let Some(x) = m.get_mut(ks.as_str()) {
                            *x += 7;
                        }
                        if let Some(x) = c.get_mut(&k) {
                            *x += 7;
                        }
                        if let Some(x) = model.get_mut(&k) {
                            *x += 7;
                        }
                    }
                }
                if log.len() < 60 {
                    log.push(what.clone());
                }
                if m.len() != model.len() || c.len() != model.len() || m.is_empty() != model.is_empty() {
                    return Err(format!("len {} / {} vs model {} after {what}", m.len(), c.len(), model.len()));
                }
                let mut got: Vec<(u64, u64)> = c.iter().map(|(a, b)| (*a, *b)).collect();
                got.sort_unstable();
                let mut got2: Vec<(String, u64)> = m.iter().map(|(a, b)| (a.clone(), *b)).collect();
                got2.sort();
                let want: Vec<(u64, u64)> = model.iter().map(|(a, b)| (*a, *b)).collect();
                let mut want2: Vec<(String, u64)> = model.iter().map(|(a, b)| (format!("key-{a}"), *b)).collect();
                want2.sort();
                if got != want || got2 != want2 {
                    return Err(format!("contents differ from the model after {what}"));
                }
                let mut gs: Vec<u64> = hs.iter().copied().collect();
                gs.sort_unstable();
                if hs.len() != model.len() || !gs.iter().eq(model.keys()) {
                    return Err(format!("the mirrored key set differs from the model after {what}"));
                }
            }
            Ok(())
        });
        rep.evaluations += 1;
        rep.bump("plain_calls", n as u64);
        rep.bump("plain_calls_while_split", split_calls);
        let tag = format!("plain-{}-s{}-i{}-h{}", flavour(), sh.seed, sh.index, h);
        match r {
            Ok(Ok(())) => {
                if split_calls > 0 {
                    rep.nontrivial.insert(digest([sh.seed, sh.index, h]));
                    rep.sample(format!("default hasher, String keys via &str: {}", log.join("; ")));
                }
            }
            Ok(Err(e)) => {
                rep.direct_violation("C01", &tag, &format!("default-hasher map: {e}"), &[("kind", "plain".into()), ("log", log.join("; "))]);
            }
            Err(p) => {
                rep.direct_violation("C01", &tag, &format!("default-hasher map: undocumented panic {p}"), &[("kind", "plain".into()), ("log", log.join("; "))]);
            }
        }
    }
}

// ------------------------------------------------------------------------------------------
// iterstates (C08): every iterator kind in every explored state, every early-drop prefix
// ------------------------------------------------------------------------------------------

fn iter_case<K: El, V: El>(cfg: &Cfg, state: u64, size: usize, op: Op) -> Option<HistOutcome> {
    let mut s: Sess<K, V> = Sess::new(cfg);
    let mut next = 1000;
    if !chain_state_pub(&mut s, state, size, &mut next) {
        return if s.ok() { None } else { Some(s.finish()) };
    }
    s.go(op);
    // the map must be fully usable afterwards
    for _ in 0..10 {
        s.insert_new(&mut next);
    }
    s.go(Op::new(Code::Iter).with_n(MAXN));
    Some(s.finish())
}

pub fn iterstates(a: &Args, rep: &mut Report) {
    let sh = Shard::from_args(a);
    let focus = static_prop(&rep.prop);
    let mut rng = sh.rng(0x17e5);
    for h in 0..sh.n {
        let mut hr = rng.fork();
        let size = if cfg!(miri) { *hr.pick(&[3usize, 14]) } else { *hr.pick(&[0usize, 1, 5, 14, 15, 20, 29, 40, 61, 100]) };
        let state = crate::sweep::draw_state(&mut hr);
        let elem = *hr.pick(&[ElemKind::TrInline, ElemKind::TrHeap, ElemKind::U64]);
        let cfg = Cfg { elem, bh: Bh::new(*hr.pick(&[HMode::Good, HMode::Identity, HMode::SameTag]), hr.below(3)), cap: usize::MAX, check_every: 1, cursor_every: 1, focus, ledger_only: false };
        // the length the state will have is not known before building: use generous prefixes
        let mut ops: Vec<Op> = vec![Op::new(Code::Keys), Op::new(Code::Values), Op::new(Code::IterMut).with_v(3), Op::new(Code::ValuesMut).with_v(2)];
        let lim = (size as u64 + 12).min(160);
        for p in (0..=lim).chain([MAXN]) {
            ops.push(Op::n(Code::Iter, p));
            ops.push(Op::n(Code::Drain, p));
            // forgetting leaks the rest by design: a few prefixes only, on small states
            if size <= 40 && (p <= 2 || p == lim / 2 || p == MAXN) {
                ops.push(Op::n(Code::Drain, p).with_v(1));
            }
            ops.push(Op::n(Code::IntoIter, p));
        }
        for (j, op) in ops.into_iter().enumerate() {
            let out = match elem {
                ElemKind::U64 => iter_case::<u64, u64>(&cfg, state, size, op),
                ElemKind::TrInline => iter_case::<Tr<false>, Tr<false>>(&cfg, state, size, op),
                ElemKind::TrHeap => iter_case::<Tr<true>, Tr<true>>(&cfg, state, size, op),
                ElemKind::Big => iter_case::<u64, Big>(&cfg, state, size, op),
            };
            if let Some(out) = out {
                let tag = format!("iterstates-{}-s{}-i{}-h{}-{}", flavour(), sh.seed, sh.index, h, j);
                rep.bump("iterator_cases", 1);
                rep.record(&cfg, &tag, out, |s| s.hist_split);
            }
        }
    }
}

// ------------------------------------------------------------------------------------------
// limits (C10 / C17): arguments around usize::MAX and isize::MAX, injected allocation failure
// ------------------------------------------------------------------------------------------

fn limits_case<K: El, V: El>(cfg: &Cfg, state: u64, size: usize, rng: &mut Rng, transcript: bool) -> Option<HistOutcome> {
    let mut s: Sess<K, V> = Sess::new(cfg);
    if transcript {
        s.mon.transcript = Some(Vec::new());
    }
    let mut next = 1000;
    if !chain_state_pub(&mut s, state, size, &mut next) {
        return if s.ok() { None } else { Some(s.finish()) };
    }
    let len = s.mon.map.len() as u64;
    let r = s.mon.state().r as u64;
    let span = len + 2 * ((len + r - 1) / r) + 3;
    let split = s.mon.state().old.is_some();
    let mut args: Vec<u64> = Vec::new();
    for d in 0..=span {
        args.push(u64::MAX - d);
        args.push(i64::MAX as u64 - d);
        args.push(i64::MAX as u64 + d + 1);
    }
    for d in [0, 1, len, span] {
        args.push(u64::MAX / 16 + d);
        args.push(u64::MAX / 16 - d);
        args.push(u64::MAX / 2 - d);
        args.push(u64::MAX / 17 + d);
    }
    for e in 41..64 {
        args.push(1u64 << e);
    }
    // shrink_to with a floor nobody can reach is a no-op by contract; issued first, while the
    // state is still split (a failing try_reserve may finish the resize before it fails)
    for d in (0..=span).step_by(1 + span as usize / 24) {
        s.go(Op::n(Code::ShrinkTo, u64::MAX - d));
        s.go(Op::n(Code::ShrinkTo, i64::MAX as u64 - d));
        s.go(Op::n(Code::ShrinkTo, i64::MAX as u64 + d + 1));
    }
    for a in args {
        s.go(Op::n(Code::TryReserve, a));
        // the infallible call only with sizes whose failure is arithmetic (a panic, not an abort)
        if a >= 1u64 << 62 {
            s.go(Op::n(Code::Reserve, a));
        }
        if !s.ok() {
            break;
        }
    }
    // iterators whose claimed lower size bound is huge (std::iter::repeat claims usize::MAX)
    for lo in [u64::MAX, u64::MAX - 1, u64::MAX / 2 + 1, i64::MAX as u64, 1u64 << 62] {
        s.go(Op::n(Code::ExtendHinted, lo).with_list(vec![3_000_001, 1, 3_000_002, 2]));
        let _ = split;
    }
    // injected allocation failure in this state, then contract checks with ordinary arguments
    let free = s.mon.map.capacity() as u64 - len;
    for a in [free + 1, free + len + 5, 2 * len + 40] {
        s.go(Op::n(Code::TryReserve, a).with_v(1));
    }
    for _ in 0..3 {
        s.insert_new(&mut next);
    }
    s.go(Op::n(Code::TryReserve, free + 50).with_v(rng.below(2)));
    s.go(Op::n(Code::ShrinkTo, len / 2));
    s.go(Op::n(Code::Reserve, 17));
    s.go(Op::new(Code::ShrinkToFit));
    s.go(Op::new(Code::Probe));
    Some(s.finish_with_transcript())
}

pub fn limits(a: &Args, rep: &mut Report) {
    let sh = Shard::from_args(a);
    let focus = static_prop(&rep.prop);
    let mut rng = sh.rng(0x11317);
    let want_transcript = a.has("transcript");
    let mut tfile = if want_transcript { Some(std::fs::File::create(a.str("transcript", "t.txt")).expect("create transcript")) } else { None };
    let skip = a.u64("skip", 0);
    for h in 0..sh.n {
        let mut hr = rng.fork();
        if h < skip {
            continue;
        }
        let size = *hr.pick(&[0usize, 1, 3, 7, 9, 14, 15, 20, 28, 29, 40, 57, 100]);
        let state = crate::sweep::draw_state(&mut hr);
        let elem = *hr.pick(&[ElemKind::U64, ElemKind::U64, ElemKind::TrInline]);
        let cfg = Cfg { elem, bh: Bh::new(*hr.pick(&[HMode::Good, HMode::Identity]), hr.below(3)), cap: usize::MAX, check_every: 16, cursor_every: 4, focus, ledger_only: false };
        if let Some(f) = &mut tfile {
            use std::io::Write as _;
            let _ = writeln!(f, "## history {} {} state={} size={}", h, cfg.describe(), state, size);
            let _ = f.flush();
        }
        let out = match elem {
            ElemKind::U64 => limits_case::<u64, u64>(&cfg, state, size, &mut hr, want_transcript),
            _ => limits_case::<Tr<false>, Tr<false>>(&cfg, state, size, &mut hr, want_transcript),
        };
        if out.is_none() {
            if let Some(f) = &mut tfile {
                use std::io::Write as _;
                let _ = writeln!(f, "## end skipped");
            }
        }
        if let Some(out) = out {
            if let Some(f) = &mut tfile {
                use std::io::Write as _;
                let mut t = String::new();
                for l in out.transcript.iter().flatten() {
                    t.push_str(l);
                    t.push('\n');
                }
                match &out.viol {
                    None => t.push_str("## end ok\n"),
                    Some((v, at)) => t.push_str(&format!("## end VIOL {} at op {}: {}\n", v.prop, at, v.msg)),
                }
                let _ = f.write_all(t.as_bytes());
                let _ = f.flush();
            }
            if out.stats.hist_split {
                rep.bump("capacity_calls_split", 1);
            }
            let tag = format!("limits-{}-s{}-i{}-h{}", flavour(), sh.seed, sh.index, h);
            rep.record(&cfg, &tag, out, |s| s.overflow_args > 0);
        }
    }
}

// ------------------------------------------------------------------------------------------
// clones (C11): clone / clone_from, then divergent histories on both sides
// ------------------------------------------------------------------------------------------

fn clones_case<K: El, V: El>(cfg: &Cfg, rng: &mut Rng, rep: &mut Report, tag: &str) {
    heartbeat();
    ledger_reset();
    let _ = take_violations();
    // source: random history
    let mut a: Mon<K, V> = Mon::new(cfg.cap, cfg.bh);
    a.conserve = false;
    a.alloc_checks = false;
    a.focus = cfg.focus;
    let mut ga = Gen::new(rng.next(), Profile::Clone, *rng.pick(&[40u64, 200, 1000]), 0, 300);
    // one case in eight: a source that is exactly full, cloned into a destination that was
    // emptied while mid-resize (its old table empty but still allocated)
    let exact = rng.chance(1, 8);
    if exact {
        ga = ga.with_script(vec![Dir::InsertNew(rng.usize(40)), Dir::FillToFull]);
    } else {
        if rng.chance(1, 2) {
            // sizes at which growth leaves more than R elements behind, then one to three more keys
            ga = ga.with_script(vec![Dir::Tail(rng.usize(30)), Dir::InsertNew(8 + rng.usize(60)), Dir::FillToFull, Dir::InsertNew(*rng.pick(&[1usize, 1, 1, 2, 3])), Dir::RemoveOld(rng.usize(4))]);
        } else {
            ga = ga.with_script(vec![Dir::Tail(rng.usize(30)), *rng.pick(&[Dir::FillToFull, Dir::FillToFull, Dir::InsertNew(5), Dir::InsertNew(40)]), Dir::InsertNew(rng.usize(5)), Dir::RemoveOld(rng.usize(4))]);
        }
    }
    let mut ops_a = Vec::new();
    let mut fail: Option<Viol> = None;
    while let Some(op) = ga.next_op(&a) {
        if matches!(op.code, Code::CloneSwap | Code::CloneFrom | Code::FromIter) {
            continue;
        }
        let r = a.step(&op);
        ops_a.push(op);
        if let Err(v) = r {
            fail = Some(v);
            break;
        }
    }
    let src_split = a.state().old.as_ref().map_or(false, |o| o.table.len > 0);
    // destination: its own history, own hasher
    let dbh = Bh::new(*rng.pick(&[HMode::Good, HMode::Identity, HMode::SameTag]), 10 + rng.below(8));
    let (src_main, src_total) = (a.state().main.len, a.map.len());
    let dcap = *rng.pick(&[usize::MAX, 0, 7, 28, 100, src_main, src_main + 1, src_main.saturating_sub(1), (src_main + src_total) / 2, src_total.saturating_sub(1)]);
    let fresh_dest = rng.chance(1, 3) && !exact;
    let mut b: Mon<K, V> = Mon::new(dcap, dbh);
    b.conserve = false;
    b.alloc_checks = false;
    b.focus = cfg.focus;
    let use_clone_from = rng.chance(2, 3) || exact;
    let mut ops_b = Vec::new();
    let mut dst_split = false;
    if fail.is_none() && use_clone_from && !fresh_dest {
        let mut gb = Gen::new(rng.next(), Profile::General, 100, 0, 300);
        if exact {
            gb = gb.with_script(vec![Dir::InsertNew(rng.usize(20)), Dir::FillToFull, Dir::InsertNew(1 + rng.usize(2))]);
        } else {
            if rng.chance(1, 2) {
                gb = gb.with_script(vec![Dir::InsertNew(8 + rng.usize(60)), Dir::FillToFull, Dir::InsertNew(*rng.pick(&[1usize, 1, 1, 2, 3])), Dir::RemoveMain(rng.usize(3))]);
            } else {
                gb = gb.with_script(vec![*rng.pick(&[Dir::FillToFull, Dir::InsertNew(3), Dir::InsertNew(0), Dir::InsertNew(60)]), Dir::InsertNew(rng.usize(5)), Dir::RemoveMain(rng.usize(3))]);
            }
        }
        while let Some(op) = gb.next_op(&b) {
            let r = b.step(&op);
            ops_b.push(op);
            if let Err(v) = r {
                fail = Some(v);
                break;
            }
        }
        if exact && fail.is_none() {
            // empty it while split: everything retained away, or only the old table's elements
            let op = if rng.chance(1, 2) { Op::new(Code::Retain).with_list(pred_none()) } else { Op::new(Code::Retain).with_list(pred_keys(&b.model.keys().copied().filter(|k| !matches!(b.locate(*k), Location::Old(_))).collect::<Vec<_>>())) };
            let r = b.step(&op);
            ops_b.push(op);
            if let Err(v) = r {
                fail = Some(v);
            }
        }
        dst_split = b.state().old.as_ref().map_or(false, |o| o.table.len > 0);
    }
    let body = |ops_a: &Vec<Op>, ops_b: &Vec<Op>| {
        vec![
            ("kind", "clones".to_string()),
            ("source_ops", ops_a.iter().map(|o| o.encode()).collect::<Vec<_>>().join("; ")),
            ("dest_ops", ops_b.iter().map(|o| o.encode()).collect::<Vec<_>>().join("; ")),
            ("clone_from", use_clone_from.to_string()),
            ("hashers", format!("{:?} {:?}", cfg.bh, dbh)),
        ]
    };
    rep.evaluations += 1;
    if let Some(v) = fail {
        rep.direct_violation(v.prop, tag, &v.msg, &body(&ops_a, &ops_b));
        std::mem::forget(a);
        std::mem::forget(b);
        return;
    }
    // the clone
    let prior: Vec<u64> = b.model.values().flat_map(|s| [s.kid, s.vid]).collect();
    let r = catch(|| {
        if use_clone_from {
            b.map.clone_from(&a.map);
        } else {
            b.map = a.map.clone();
        }
    });
    let mut check = || -> Result<(), String> {
        if let Err(p) = &r {
            return Err(format!("clone panicked: {p}"));
        }
        for id in &prior {
            if K::TRACKED && ledger_state(*id) != Some(Life::Dropped) {
                return Err(format!("clone_from left a previous element of the destination alive (object {id})"));
            }
        }
        if !(a.map == b.map) || !(b.map == a.map) {
            return Err("clone != source".into());
        }
        if use_clone_from && b.map.hasher() != a.map.hasher() {
            return Err("clone_from did not adopt the source's hasher".into());
        }
        let mut nm = BTreeMap::new();
        for (k, v) in b.map.iter() {
            match a.model.get(&k.val()) {
                Some(s) if s.pay == v.val() => {
                    if K::TRACKED && (s.kid == k.id() || s.vid == v.id()) {
                        return Err(format!("clone shares an object with the source (key {})", k.val()));
                    }
                    if nm.insert(k.val(), Slot { kid: k.id(), vid: v.id(), pay: v.val() }).is_some() {
                        return Err(format!("clone holds key {} twice", k.val()));
                    }
                }
                other => return Err(format!("clone holds ({}, {}), source model has {:?}", k.val(), v.val(), other)),
            }
        }
        if nm.len() != a.model.len() {
            return Err(format!("clone has {} elements, source {}", nm.len(), a.model.len()));
        }
        for k in a.model.keys() {
            if b.map.get(&K::mk(*k)).is_none() {
                return Err(format!("lookup of key {k} fails in the clone"));
            }
        }
        b.model = nm;
        b.bh = *b.map.hasher();
        Ok(())
    };
    if let Err(e) = check() {
        rep.direct_violation("C11", tag, &e, &body(&ops_a, &ops_b));
        std::mem::forget(a);
        std::mem::forget(b);
        return;
    }
    if let Err(v) = a.full_check("C11", &[], "clone (source must be unchanged)") {
        rep.direct_violation("C11", tag, &v.msg, &body(&ops_a, &ops_b));
        std::mem::forget(a);
        std::mem::forget(b);
        return;
    }
    // the real crate never leaves the product of clone / clone_from mid-resize; an implementation
    // may, but then the product must take an insertion like any map (the source does)
    if b.map.verif_state().old.is_some() {
        let kv = (1u64 << 52) + rng.below(1 << 20);
        let (kk, v) = (K::mk(kv), V::mk(kv));
        let bm = &mut b.map;
        let r = catch(|| {
            bm.insert(kk, v);
        });
        if let Err(p) = r {
            rep.direct_violation("C11", tag, &format!("the product of clone_from (equal to the source by every observer) cannot take an insertion: {p}"), &body(&ops_a, &ops_b));
            std::mem::forget(a);
            std::mem::forget(b);
            return;
        }
        b.map.remove(&K::mk(kv));
        rep.bump("clone_product_split_probed", 1);
    }
    rep.bump("clone_pairs", 1);
    if exact {
        rep.bump("clone_exact_fit_into_emptied_split_destination", 1);
    }
    if src_split {
        rep.bump("clone_src_split", 1);
    }
    if dst_split {
        rep.bump("clone_dst_split", 1);
    }
    // divergent histories: every op on one side must leave the other side exactly as its model says
    let mut gd = Gen::new(rng.next(), Profile::General, 300, 0, 400);
    let n = if cfg!(miri) { 10 } else { 40 + rng.usize(60) };
    let mut div: Vec<String> = Vec::new();
    for i in 0..n {
        let on_a = rng.chance(1, 2);
        let (x, y, name) = if on_a { (&mut a, &mut b, "source") } else { (&mut b, &mut a, "clone") };
        let op = gd.random_op(x);
        if matches!(op.code, Code::Probe | Code::FromIter | Code::CloneFrom | Code::CloneSwap | Code::WithCapacity) {
            continue;
        }
        div.push(format!("{name}: {}", op.encode()));
        let _ = i;
        // The map operated on was fully consistent before this call (checked after its own last
        // call and after every call on the other map), so if the call itself misbehaves that is
        // the call's own property, not clone independence ...
        if let Err(v) = x.step(&op) {
            let mut bd = body(&ops_a, &ops_b);
            bd.push(("divergent_ops", div.join("; ")));
            rep.direct_violation(v.prop, tag, &format!("(on the {name} after a clone) {}", v.msg), &bd);
            std::mem::forget(a);
            std::mem::forget(b);
            return;
        }
        // ... whereas the *other* map changing under a call it was not involved in is exactly
        // what C11 forbids
        if let Err(v) = y.full_check("C11", &[], "an operation on the other map") {
            let mut bd = body(&ops_a, &ops_b);
            bd.push(("divergent_ops", div.join("; ")));
            rep.direct_violation("C11", tag, &format!("an operation on the {name} showed through the other map: {}", v.msg), &bd);
            std::mem::forget(a);
            std::mem::forget(b);
            return;
        }
    }
    let fa = a.full_check("C11", &[], "end (source)");
    let fb = b.full_check("C11", &[], "end (clone)");
    if let Err(v) = fa.and(fb) {
        let mut bd = body(&ops_a, &ops_b);
        bd.push(("divergent_ops", div.join("; ")));
        rep.direct_violation("C11", tag, &v.msg, &bd);
        std::mem::forget(a);
        std::mem::forget(b);
        return;
    }
    let sa = a.stats.clone();
    let sb = b.stats.clone();
    drop(a);
    drop(b);
    rep.stats.merge(&sa);
    rep.stats.merge(&sb);
    if let Some((_, m)) = take_violations().into_iter().next() {
        rep.direct_violation("C11", tag, &format!("{m} when dropping source and clone"), &body(&ops_a, &ops_b));
        return;
    }
    if K::TRACKED && ledger_live() != 0 {
        rep.direct_violation("C11", tag, &format!("{} objects still live after source and clone were dropped", ledger_live()), &body(&ops_a, &ops_b));
        return;
    }
    if src_split || dst_split {
        rep.nontrivial.insert(digest([history_digest(&ops_a), history_digest(&ops_b), use_clone_from as u64]));
        rep.sample(format!("source ({:?}, split {src_split}) [{} ops]; destination ({:?}, split {dst_split}) [{} ops]; {}; then {} divergent ops", cfg.bh, ops_a.len(), dbh, ops_b.len(), if use_clone_from { "clone_from" } else { "clone" }, div.len()));
    }
}

pub fn clones(a: &Args, rep: &mut Report) {
    let sh = Shard::from_args(a);
    let focus = static_prop(&rep.prop);
    let mut rng = sh.rng(0xc10e);
    for h in 0..sh.n {
        let mut hr = rng.fork();
        let elem = *hr.pick(&[ElemKind::TrInline, ElemKind::TrHeap, ElemKind::U64]);
        let cfg = Cfg { elem, bh: Bh::new(*hr.pick(&[HMode::Good, HMode::Identity, HMode::SameTag]), hr.below(4)), cap: *hr.pick(&[usize::MAX, 0, 7, 28]), check_every: 1, cursor_every: 1, focus, ledger_only: false };
        let tag = format!("clones-{}-s{}-i{}-h{}", flavour(), sh.seed, sh.index, h);
        match elem {
            ElemKind::U64 => clones_case::<u64, u64>(&cfg, &mut hr, rep, &tag),
            ElemKind::TrInline => clones_case::<Tr<false>, Tr<false>>(&cfg, &mut hr, rep, &tag),
            ElemKind::TrHeap => clones_case::<Tr<true>, Tr<true>>(&cfg, &mut hr, rep, &tag),
            ElemKind::Big => clones_case::<u64, Big>(&cfg, &mut hr, rep, &tag),
        }
    }
}

// ------------------------------------------------------------------------------------------
// meta (C14): same contents through different histories => indistinguishable
// ------------------------------------------------------------------------------------------

#[derive(Clone, Debug)]
struct Recipe {
    bh: Bh,
    cap: usize,
    shuffle: u64,
    noise: usize,
    force_split: bool,
    /// finally start a resize through reserve (main table empty, everything in the old one)
    reserve_split: bool,
    /// number of content-preserving operations applied after building
    neutral: usize,
}

fn build_map(contents: &BTreeMap<u64, u64>, r: &Recipe) -> (HashMap<u64, u64, Bh>, bool) {
    let mut m: HashMap<u64, u64, Bh> = if r.cap == usize::MAX { HashMap::with_hasher(r.bh) } else { HashMap::with_capacity_and_hasher(r.cap, r.bh) };
    let mut order: Vec<(u64, u64)> = contents.iter().map(|(a, b)| (*a, *b)).collect();
    let mut rng = Rng::new(r.shuffle);
    for i in (1..order.len()).rev() {
        order.swap(i, rng.usize(i + 1));
    }
    let mut noise_keys = Vec::new();
    for (i, (k, v)) in order.iter().enumerate() {
        // wrong value first, then overwritten
        if rng.chance(1, 5) {
            m.insert(*k, v ^ 0xFFFF);
        }
        m.insert(*k, *v);
        if i < r.noise {
            let nk = (1u64 << 45) + i as u64;
            m.insert(nk, 1);
            noise_keys.push(nk);
        }
    }
    if r.force_split {
        let mut extra = 0u64;
        while m.verif_state().old.is_none() && extra < 5000 {
            extra += 1;
            let nk = (1u64 << 46) + extra;
            m.insert(nk, 2);
            noise_keys.push(nk);
        }
    }
    for nk in noise_keys {
        m.remove(&nk);
    }
    // content-preserving operations: the history changes, the contents do not
    let mut nrng = Rng::new(r.shuffle ^ 0x5eed);
    for _ in 0..r.neutral {
        match nrng.below(9) {
            0 => {
                // replace_entry_with that keeps the value, on keys in the old table first
                let keys: Vec<u64> = m.keys().copied().collect();
                let mut olds: Vec<u64> = keys.iter().copied().filter(|k| matches!(m.verif_locate(k), Location::Old(_))).collect();
                if olds.is_empty() {
                    olds = keys;
                }
                for k in olds.into_iter().take(1 + nrng.usize(4)) {
                    if nrng.chance(1, 2) {
                        let _ = m.entry(k).and_replace_entry_with(|_, v| Some(v));
                    } else {
                        let _ = m.raw_entry_mut().from_key(&k).and_replace_entry_with(|_, v| Some(v));
                    }
                }
            }
            1 => m.retain(|_, _| true),
            2 => {
                let n = m.drain_filter(|_, _| false).count();
                assert_eq!(n, 0);
            }
            3 => {
                // clone_from into a destination with prior contents, possibly mid-resize
                let mut d: HashMap<u64, u64, Bh> = HashMap::with_hasher(Bh::new(HMode::Good, 40 + nrng.below(8)));
                let pn = *nrng.pick(&[0u64, 3, 15, 16, 29, 40]);
                for i in 0..pn {
                    d.insert((1u64 << 48) + i, i);
                }
                d.clone_from(&m);
                m = d;
            }
            4 => {
                // layout-only calls, small and larger than the spare room (all-at-once carry)
                let n = if nrng.chance(1, 2) { nrng.usize(40) } else { m.capacity() - m.len() + 1 + nrng.usize(60) };
                if nrng.chance(1, 2) {
                    m.reserve(n);
                } else {
                    m.try_reserve(n).expect("try_reserve of a small amount");
                }
            }
            5 => m.shrink_to(nrng.usize(300)),
            6 => {
                for (_, v) in m.iter_mut() {
                    *v ^= 0;
                }
            }
            7 => {
                // overwrite with the same value (carries if the key sits in the old table)
                let keys: Vec<(u64, u64)> = m.iter().map(|(a, b)| (*a, *b)).take(3).collect();
                for (k, v) in keys {
                    m.insert(k, v);
                }
            }
            _ => {
                let c = m.clone();
                m = c;
            }
        }
    }
    if r.reserve_split && !m.is_empty() {
        let mut extra = 0u64;
        let mut noise_keys = Vec::new();
        while m.verif_state().old.is_some() && extra < 5000 {
            extra += 1;
            let nk = (1u64 << 47) + extra;
            m.insert(nk, 3);
            noise_keys.push(nk);
        }
        for nk in noise_keys {
            m.remove(&nk);
        }
        let free = m.capacity() - m.len();
        m.reserve(free + 1);
    }
    let split = m.verif_state().old.as_ref().map_or(false, |o| o.table.len > 0);
    (m, split)
}

fn observe_same(x: &HashMap<u64, u64, Bh>, y: &HashMap<u64, u64, Bh>, universe: u64) -> Result<(), String> {
    if !(x == y) || !(y == x) || x != y {
        return Err("maps with equal contents compare unequal".into());
    }
    if x.len() != y.len() || x.is_empty() != y.is_empty() {
        return Err("len / is_empty differs".into());
    }
    for k in 0..universe {
        if x.get(&k) != y.get(&k) || x.contains_key(&k) != y.contains_key(&k) || x.get_key_value(&k) != y.get_key_value(&k) {
            return Err(format!("get({k}) differs"));
        }
    }
    let sorted = |m: &HashMap<u64, u64, Bh>| {
        let mut v: Vec<(u64, u64)> = m.iter().map(|(a, b)| (*a, *b)).collect();
        v.sort_unstable();
        v
    };
    if sorted(x) != sorted(y) {
        return Err("iter() multisets differ".into());
    }
    let mut kx: Vec<u64> = x.keys().copied().collect();
    let mut ky: Vec<u64> = y.keys().copied().collect();
    kx.sort_unstable();
    ky.sort_unstable();
    let mut vx: Vec<u64> = x.values().copied().collect();
    let mut vy: Vec<u64> = y.values().copied().collect();
    vx.sort_unstable();
    vy.sort_unstable();
    if kx != ky || vx != vy {
        return Err("keys()/values() multisets differ".into());
    }
    let (mut dx, mut dy) = (parse_debug_map(&format!("{x:?}")).ok_or("Debug unparsable")?, parse_debug_map(&format!("{y:?}")).ok_or("Debug unparsable")?);
    dx.sort_unstable();
    dy.sort_unstable();
    if dx != dy || dx != sorted(x) {
        return Err("Debug output differs".into());
    }
    Ok(())
}

/// The unsigned integers in a Debug rendering, in order of appearance.
fn debug_numbers(s: &str) -> Vec<u64> {
    let mut out = Vec::new();
    let mut cur: Option<u64> = None;
    for ch in s.chars() {
        match ch.to_digit(10) {
            Some(d) => cur = Some(cur.unwrap_or(0).wrapping_mul(10).wrapping_add(d as u64)),
            None => {
                if let Some(c) = cur.take() {
                    out.push(c);
                }
            }
        }
    }
    if let Some(c) = cur {
        out.push(c);
    }
    out
}

pub fn meta(a: &Args, rep: &mut Report) {
    let sh = Shard::from_args(a);
    let mut rng = sh.rng(0x3e7a);
    for h in 0..sh.n {
        let mut hr = rng.fork();
        let n = if cfg!(miri) { *hr.pick(&[0usize, 3, 15]) } else { *hr.pick(&[0usize, 1, 2, 7, 14, 15, 16, 28, 29, 30, 57, 60, 100, 113, 200, 240]) };
        let universe = (n as u64) * 3 + 10;
        let mut contents = BTreeMap::new();
        while contents.len() < n {
            contents.insert(hr.below(universe), hr.below(50));
        }
        let recipe = |hr: &mut Rng| Recipe {
            bh: Bh::new(*hr.pick(&[HMode::Good, HMode::Good, HMode::Identity, HMode::SameTag, HMode::LowEntropy, HMode::OneShot]), hr.below(16)),
            cap: *hr.pick(&[usize::MAX, 0, n, 2 * n, 7, 100]),
            shuffle: hr.next(),
            noise: hr.usize(n + 1),
            force_split: hr.chance(1, 2),
            reserve_split: hr.chance(1, 4),
            neutral: hr.usize(4),
        };
        let (r1, r2, r3) = (recipe(&mut hr), recipe(&mut hr), recipe(&mut hr));
        heartbeat();
        let tag = format!("meta-{}-s{}-i{}-h{}", flavour(), sh.seed, sh.index, h);
        let body = vec![("kind", "meta".to_string()), ("contents", format!("{contents:?}")), ("recipes", format!("{r1:?} | {r2:?} | {r3:?}"))];
        rep.evaluations += 1;
        let res = catch(|| -> Result<(bool, bool), String> {
            let (m1, s1) = build_map(&contents, &r1);
            let (m2, s2) = build_map(&contents, &r2);
            let (m3, s3) = build_map(&contents, &r3);
            // premise of the property: the maps really hold the same elements. A map that is
            // self-consistent (len, iteration and lookups tell the same story) but holds
            // something else was mis-built by a broken builder operation: not C14's finding.
            // A map whose observers contradict each other is judged by the comparisons below.
            let intended: Vec<(u64, u64)> = contents.iter().map(|(a, b)| (*a, *b)).collect();
            let mut inconsistent: Option<String> = None;
            for (i, m) in [&m1, &m2, &m3].into_iter().enumerate() {
                let mut by_iter: Vec<(u64, u64)> = m.iter().map(|(a, b)| (*a, *b)).collect();
                by_iter.sort_unstable();
                let mut keys: Vec<u64> = (0..universe).chain(by_iter.iter().map(|p| p.0)).collect();
                keys.sort_unstable();
                keys.dedup();
                let by_get: Vec<(u64, u64)> = keys.iter().filter_map(|k| m.get(k).map(|v| (*k, *v))).collect();
                let consistent = by_iter == by_get && m.len() == by_iter.len();
                if consistent && by_iter != intended {
                    return Err(format!("PREMISE: the map built by recipe {} does not hold the intended contents (len {} vs {})", i + 1, m.len(), contents.len()));
                }
                if !consistent && inconsistent.is_none() {
                    inconsistent = Some(format!("the map built by recipe {} contradicts itself: len() {}, iteration yields {} pairs, lookups find {}", i + 1, m.len(), by_iter.len(), by_get.len()));
                }
            }
            let note = |e: String| match &inconsistent {
                Some(i) => format!("{e} [{i}]"),
                None => e,
            };
            observe_same(&m1, &m2, universe).map_err(note)?;
            observe_same(&m2, &m3, universe).map_err(note)?;
            if let Some(i) = inconsistent {
                // the same contradiction in every layout: not layout dependence, but not a map
                return Err(format!("PREMISE: {i}"));
            }
            // consuming iterators and the iterators' own Debug output, on maps rebuilt by the
            // same recipes (a clone would not be mid-resize)
            let mut views: Vec<Vec<Vec<u64>>> = Vec::new();
            for r in [&r1, &r2, &r3] {
                let mut v: Vec<Vec<u64>> = Vec::new();
                let pairs = |mut p: Vec<(u64, u64)>| -> Vec<u64> {
                    p.sort_unstable();
                    p.into_iter().flat_map(|(a, b)| [a, b]).collect()
                };
                let dbg_pairs = |s: String| -> Vec<u64> {
                    let n = debug_numbers(&s);
                    let mut p: Vec<(u64, u64)> = n.chunks(2).map(|c| (c[0], *c.get(1).unwrap_or(&u64::MAX))).collect();
                    p.sort_unstable();
                    p.into_iter().flat_map(|(a, b)| [a, b]).collect()
                };
                let dbg_list = |s: String| -> Vec<u64> {
                    let mut n = debug_numbers(&s);
                    n.sort_unstable();
                    n
                };
                let (m, _) = build_map(&contents, r);
                v.push(dbg_pairs(format!("{:?}", m.iter())));
                v.push(dbg_list(format!("{:?}", m.keys())));
                v.push(dbg_list(format!("{:?}", m.values())));
                let it = m.into_iter();
                v.push(dbg_pairs(format!("{it:?}")));
                v.push(vec![it.len() as u64]);
                v.push(pairs(it.collect()));
                let (mut m, _) = build_map(&contents, r);
                {
                    let d = m.drain();
                    v.push(dbg_pairs(format!("{d:?}")));
                    v.push(vec![d.len() as u64]);
                    v.push(pairs(d.collect()));
                }
                v.push(vec![m.len() as u64]);
                let (mut m, _) = build_map(&contents, r);
                v.push(dbg_pairs(format!("{:?}", m.iter_mut())));
                v.push(dbg_list(format!("{:?}", m.values_mut())));
                views.push(v);
            }
            const VIEW: [&str; 12] = ["Debug of iter()", "Debug of keys()", "Debug of values()", "Debug of into_iter()", "into_iter().len()", "into_iter()", "Debug of drain()", "drain().len()", "drain()", "len() after drain()", "Debug of iter_mut()", "Debug of values_mut()"];
            for j in 0..VIEW.len() {
                if views[0][j] != views[1][j] || views[1][j] != views[2][j] {
                    return Err(format!("{} differs between maps with equal contents: {:?} / {:?} / {:?}", VIEW[j], crate::exec::abbreviate(&views[0][j]), crate::exec::abbreviate(&views[1][j]), crate::exec::abbreviate(&views[2][j])));
                }
            }
            // reflexive, transitive
            #[allow(clippy::eq_op)]
            if !(m1 == m1) || !(m1 == m3) {
                return Err("== is not reflexive / transitive".into());
            }
            // sets with the same keys
            let mk_set = |r: &Recipe| -> HashSet<u64, Bh> {
                let (m, _) = build_map(&contents, r);
                let mut s = HashSet::with_hasher(r.bh);
                // insert in the map's iteration order (layout dependent on purpose)
                for k in m.keys() {
                    s.insert(*k);
                }
                s
            };
            let (t1, t2) = (mk_set(&r1), mk_set(&r2));
            if t1 != t2 || t2 != t1 || t1.len() != t2.len() {
                return Err("sets with equal contents compare unequal".into());
            }
            let (mut d1, mut d2) = (parse_debug_set(&format!("{t1:?}")).ok_or("set Debug unparsable")?, parse_debug_set(&format!("{t2:?}")).ok_or("set Debug unparsable")?);
            d1.sort_unstable();
            d2.sort_unstable();
            if d1 != d2 {
                return Err("set Debug output differs".into());
            }
            // negative cases: exactly one value / one key differs; the differing element is
            // placed in the old table when there is one
            let mut neg_old = false;
            if !contents.is_empty() {
                for (which, base_r) in [(0, &r1), (1, &r2)] {
                    let (mut x, split) = build_map(&contents, base_r);
                    let target = if split {
                        contents.keys().copied().find(|k| matches!(x.verif_locate(k), Location::Old(_)))
                    } else {
                        None
                    }
                    .or_else(|| contents.keys().next().copied())
                    .unwrap();
                    if matches!(x.verif_locate(&target), Location::Old(_)) {
                        neg_old = true;
                    }
                    *x.get_mut(&target).unwrap() ^= 1;
                    let other = if which == 0 { &m2 } else { &m1 };
                    if x == *other || *other == x {
                        return Err(format!("maps differing in the value of key {target} compare equal"));
                    }
                    // one key replaced by another
                    let (mut y, _) = build_map(&contents, base_r);
                    let v = y.remove(&target).unwrap();
                    y.insert(universe + 5, v);
                    if y == *other || *other == y {
                        return Err(format!("maps differing in one key ({target}) compare equal"));
                    }
                    // one element fewer
                    let (mut z, _) = build_map(&contents, base_r);
                    z.remove(&target);
                    if z == *other || *other == z {
                        return Err("maps of different length compare equal".into());
                    }
                    let mut ts = mk_set(base_r);
                    ts.remove(&target);
                    // a strict subset is not equal, whichever side it stands on
                    if ts == t1 || t1 == ts || ts == t2 || t2 == ts {
                        return Err("a set and its strict subset (one element fewer) compare equal".into());
                    }
                    ts.insert(universe + 9);
                    if ts == t1 || t1 == ts {
                        return Err("sets differing in one element compare equal".into());
                    }
                    let empty: HashSet<u64, Bh> = HashSet::with_hasher(base_r.bh);
                    if empty == t1 || t1 == empty {
                        return Err("the empty set compares equal to a non-empty one".into());
                    }
                }
            }
            Ok((s1 != s2 || s2 != s3, neg_old))
        });
        match res {
            Ok(Ok((phase_differs, neg_old))) => {
                rep.bump("meta_triples", 1);
                if phase_differs {
                    rep.bump("meta_pairs_phase_differs", 1);
                    rep.nontrivial.insert(digest(contents.iter().flat_map(|(a, b)| [*a, *b]).chain([r1.shuffle, r2.shuffle])));
                    rep.sample(format!("contents {:?} built by {r1:?} and {r2:?}", crate::exec::abbreviate(&contents.iter().collect::<Vec<_>>())));
                }
                if neg_old {
                    rep.bump("meta_negative_old", 1);
                }
            }
            Ok(Err(e)) => {
                if e.starts_with("PREMISE") {
                    rep.bump("meta_premise_failed", 1);
                    rep.direct_violation("C01", &tag, &e, &body);
                } else {
                    rep.direct_violation("C14", &tag, &e, &body);
                }
            }
            Err(p) => {
                // a panic while building or observing is a C01-class event; C14 only if the
                // read-only observers panic, which cannot be told apart here
                rep.direct_violation("C01", &tag, &format!("panic while building / observing equal-content maps: {p}"), &body);
            }
        }
    }
}

// ------------------------------------------------------------------------------------------
// dropbomb (C09): a drain_filter dropped early must remove every remaining match even if the
// destructor of one of them panics
// ------------------------------------------------------------------------------------------

pub fn dropbomb(a: &Args, rep: &mut Report) {
    let sh = Shard::from_args(a);
    let focus = static_prop(&rep.prop);
    let mut rng = sh.rng(0xb03b);
    type T = Tr<true>;
    for h in 0..sh.n {
        let mut hr = rng.fork();
        let size = if cfg!(miri) { *hr.pick(&[4usize, 15]) } else { *hr.pick(&[2usize, 5, 14, 15, 20, 29, 40, 61, 100]) };
        let state = crate::sweep::draw_state(&mut hr);
        let cfg = Cfg { elem: ElemKind::TrHeap, bh: Bh::new(*hr.pick(&[HMode::Good, HMode::Identity]), hr.below(3)), cap: usize::MAX, check_every: 1, cursor_every: 1, focus, ledger_only: false };
        let mut s: Sess<T, T> = Sess::new(&cfg);
        let mut next = 1000;
        if !chain_state_pub(&mut s, state, size, &mut next) || !s.ok() {
            if s.ok() {
                std::mem::forget(s);
            } else {
                let tag = format!("dropbomb-build-{}-s{}-i{}-h{}", flavour(), sh.seed, sh.index, h);
                rep.record(&cfg, &tag, s.finish(), |_| false);
            }
            continue;
        }
        let olds = s.keys_at(true);
        let all: Vec<u64> = s.mon.model.keys().copied().collect();
        let pred_list = match hr.below(4) {
            0 => pred_all(),
            1 if !olds.is_empty() => pred_keys(&olds),
            2 => pred_mod(2, 0),
            _ => pred_keys(&all.iter().copied().filter(|_| hr.chance(2, 3)).collect::<Vec<_>>()),
        };
        let pred = Pred::parse(&pred_list);
        let matching: Vec<u64> = all.iter().copied().filter(|k| pred.eval(*k)).collect();
        if matching.len() < 2 {
            std::mem::forget(s);
            continue;
        }
        let bomb_key = *hr.pick(&matching);
        let bomb_in_old = olds.contains(&bomb_key);
        let bomb_id = if hr.chance(1, 2) { s.mon.model[&bomb_key].vid } else { s.mon.model[&bomb_key].kid };
        let split = s.mon.state().old.as_ref().map_or(false, |o| o.table.len > 0);
        rep.evaluations += 1;
        let tag = format!("dropbomb-{}-s{}-i{}-h{}", flavour(), sh.seed, sh.index, h);
        let body = vec![
            ("kind", "dropbomb".to_string()),
            ("build_ops", s.ops.iter().map(|o| o.encode()).collect::<Vec<_>>().join("; ")),
            ("predicate", format!("{pred_list:?}")),
            ("bomb", format!("key {bomb_key} object {bomb_id}")),
        ];
        // half of the cases use retain instead: the bomb then sits on an element retain rejects
        let use_retain = hr.chance(1, 2);
        set_drop_bomb(bomb_id);
        let map = &mut s.mon.map;
        let r = catch(|| {
            if use_retain {
                map.retain(|k, _| !pred.eval(k.val()));
            } else {
                let it = map.drain_filter(|k, _| pred.eval(k.val()));
                drop(it);
            }
        });
        let fired = !drop_bomb_armed();
        set_drop_bomb(0);
        match r {
            Err(p) if p.contains(DROP_BOMB_MSG) => {}
            Err(p) => {
                rep.direct_violation("C09", &tag, &format!("drain_filter drop with a panicking destructor: secondary panic {p}"), &body);
                std::mem::forget(s);
                continue;
            }
            Ok(()) => {
                if !fired {
                    rep.harness_errors.push("drop bomb never went off".into());
                    std::mem::forget(s);
                    continue;
                }
                rep.direct_violation("C09", &tag, "a panicking destructor inside DrainFilter::drop was swallowed", &body);
                std::mem::forget(s);
                continue;
            }
        }
        if use_retain {
            // retain was interrupted by the panicking destructor: elements it had not reached may
            // stay, but nothing the predicate keeps may be lost, and the bomb element is gone
            let lost: Vec<u64> = all.iter().copied().filter(|k| !pred.eval(*k) && !s.mon.map.contains_key(&T::mk(*k))).collect();
            if !lost.is_empty() || s.mon.map.contains_key(&T::mk(bomb_key)) {
                rep.direct_violation("C09", &tag, &format!("retain rejected key {bomb_key} whose destructor panicked (caught); afterwards {} elements the predicate keeps are gone ({:?}), bomb key still present: {}", lost.len(), crate::exec::abbreviate(&lost), s.mon.map.contains_key(&T::mk(bomb_key))), &body);
                std::mem::forget(s);
                continue;
            }
            let survivors: std::collections::BTreeSet<u64> = s.mon.map.keys().map(|k| k.val()).collect();
            s.mon.model.retain(|k, _| survivors.contains(k));
            s.mon.since_growth = None;
            s.go(Op::new(Code::FullCheck));
            for _ in 0..10 {
                s.insert_new(&mut next);
            }
            s.go(Op::new(Code::FullCheck));
            rep.bump("dropbomb_cases", 1);
            rep.bump("dropbomb_retain_cases", 1);
            if bomb_in_old {
                rep.bump("dropbomb_in_old_table", 1);
            }
            let out = s.finish();
            if out.viol.is_none() && split {
                rep.nontrivial.insert(digest([history_digest(&out.ops), bomb_id, 1]));
            }
            rep.evaluations -= 1;
            rep.record(&cfg, &tag, out, |_| false);
            continue;
        }
        // every matching element must be gone, the others untouched
        for k in &matching {
            s.mon.model.remove(k);
        }
        s.mon.since_growth = None;
        let left: Vec<u64> = matching.iter().copied().filter(|k| s.mon.map.contains_key(&T::mk(*k))).collect();
        if !left.is_empty() {
            rep.direct_violation("C09", &tag, &format!("drain_filter was dropped early; the destructor of key {bomb_key} panicked (caught) and {} matching elements were left in the map: {:?}", left.len(), crate::exec::abbreviate(&left)), &body);
            std::mem::forget(s);
            continue;
        }
        s.go(Op::new(Code::FullCheck));
        for _ in 0..10 {
            s.insert_new(&mut next);
        }
        s.go(Op::new(Code::FullCheck));
        rep.bump("dropbomb_cases", 1);
        if bomb_in_old {
            rep.bump("dropbomb_in_old_table", 1);
        }
        let out = s.finish();
        if out.viol.is_none() && split {
            rep.nontrivial.insert(digest([history_digest(&out.ops), bomb_id]));
            rep.sample(format!("{} elements (scenario {state}), drain_filter({pred_list:?}) dropped unconsumed, destructor of key {bomb_key} panics", all.len()));
        }
        rep.evaluations -= 1;
        rep.record(&cfg, &tag, out, |_| false);
    }
}

// ------------------------------------------------------------------------------------------
// withcap (C10): with_capacity(n) for every n up to a bound: capacity() >= n and n insertions
// without reallocation
// ------------------------------------------------------------------------------------------

pub fn withcap(a: &Args, rep: &mut Report) {
    let sh = Shard::from_args(a);
    let focus = static_prop(&rep.prop);
    let max = a.u64("max", 1200);
    for n in 0..=max {
        if n % sh.count != sh.index {
            continue;
        }
        let elem = if n % 3 == 0 { ElemKind::TrInline } else { ElemKind::U64 };
        let cfg = Cfg { elem, bh: Bh::new(HMode::Good, n % 4), cap: usize::MAX, check_every: 512, cursor_every: 64, focus, ledger_only: false };
        let out = match elem {
            ElemKind::U64 => {
                let mut s: Sess<u64, u64> = Sess::new(&cfg);
                s.go(Op::n(Code::WithCapacity, n));
                s.go(Op::new(Code::Probe));
                s.finish()
            }
            _ => {
                let mut s: Sess<Tr<false>, Tr<false>> = Sess::new(&cfg);
                s.go(Op::n(Code::WithCapacity, n));
                s.go(Op::new(Code::Probe));
                s.finish()
            }
        };
        let tag = format!("withcap-{}-{}", flavour(), n);
        rep.record(&cfg, &tag, out, |s| s.max_len > 0);
    }
    rep.notes.insert("withcap".into(), format!("with_capacity(n) for every n in 0..={max} (this shard: 1/{})", sh.count));
}

pub fn noop(_a: &Args, rep: &mut Report) {
    rep.evaluations = 0;
}

#[allow(unused)]
fn _unused(_: BTreeSet<u64>) {}
