//! C15 (rayon) and C16 (serde) workloads; compiled only with the `ext` feature.

use crate::base::*;
use crate::run::*;
use crate::work::Shard;
use griddle::{HashMap, HashSet};
use rayon::prelude::*;
use std::collections::{BTreeMap, BTreeSet};
use std::sync::atomic::{AtomicU32, AtomicU64, Ordering};

/// Build a map with `contents`, steered into a phase: 0 exact capacity, 1 incremental,
/// 2 resize in flight, 3 resize in flight with the old table partly emptied,
/// 4 old table present but empty (retain).
fn build(contents: &BTreeMap<u64, u64>, phase: u64, bh: Bh, rng: &mut Rng) -> (HashMap<u64, u64, Bh>, bool) {
    let mut m: HashMap<u64, u64, Bh> = if phase == 0 { HashMap::with_capacity_and_hasher(contents.len(), bh) } else { HashMap::with_hasher(bh) };
    let mut order: Vec<(u64, u64)> = contents.iter().map(|(a, b)| (*a, *b)).collect();
    for i in (1..order.len()).rev() {
        order.swap(i, rng.usize(i + 1));
    }
    for (k, v) in &order {
        m.insert(*k, *v);
    }
    if (2..=4).contains(&phase) {
        let mut noise = Vec::new();
        let mut extra = 0u64;
        while m.verif_state().old.is_none() && extra < 5000 {
            extra += 1;
            let nk = (1u64 << 44) + extra;
            m.insert(nk, 0);
            noise.push(nk);
        }
        if phase == 4 {
            // empty the old table through retain: it stays allocated
            let olds: BTreeSet<u64> = m.keys().copied().filter(|k| matches!(m.verif_locate(k), griddle::verif::Location::Old(_))).collect();
            let saved: Vec<(u64, u64)> = olds.iter().filter_map(|k| contents.get(k).map(|v| (*k, *v))).collect();
            m.retain(|k, _| !olds.contains(k));
            for nk in &noise {
                m.remove(nk);
            }
            // put the real elements back without finishing... inserting would carry; so only
            // when nothing real was lost do we keep this phase
            if !saved.is_empty() {
                for (k, v) in saved {
                    m.insert(k, v);
                }
            }
        } else {
            for nk in noise {
                m.remove(&nk);
            }
            if phase == 3 {
                let olds: Vec<u64> = m.keys().copied().filter(|k| matches!(m.verif_locate(k), griddle::verif::Location::Old(_))).take(2).collect();
                for k in olds {
                    let v = m.remove(&k).unwrap();
                    m.insert(k, v);
                }
            }
        }
    }
    if phase == 5 && !m.is_empty() && m.verif_state().old.is_none() {
        // resize started by reserve: main table empty, everything in the old table
        let free = m.capacity() - m.len();
        m.reserve(free + 1);
    }
    let split = m.verif_state().old.as_ref().map_or(false, |o| o.table.len > 0);
    (m, split)
}

fn jitter(k: u64, salt: u64) {
    match mix(k ^ salt) % 8 {
        0 => std::thread::yield_now(),
        1 => {
            for _ in 0..(mix(k) % 200) {
                std::hint::spin_loop();
            }
        }
        _ => {}
    }
}

struct Visit {
    counts: Vec<AtomicU32>,
    workers: Vec<AtomicU32>,
}

impl Visit {
    fn new(n: usize) -> Visit {
        Visit { counts: (0..n).map(|_| AtomicU32::new(0)).collect(), workers: (0..n).map(|_| AtomicU32::new(u32::MAX)).collect() }
    }
    fn hit(&self, idx: usize) {
        self.counts[idx].fetch_add(1, Ordering::Relaxed);
        self.workers[idx].store(rayon::current_thread_index().unwrap_or(99) as u32, Ordering::Relaxed);
    }
    fn check(&self, n: usize, what: &str) -> Result<u64, String> {
        for i in 0..n {
            let c = self.counts[i].load(Ordering::Relaxed);
            if c != 1 {
                return Err(format!("{what}: element #{i} was visited {c} times"));
            }
        }
        Ok(digest(self.workers.iter().take(n).map(|w| w.load(Ordering::Relaxed) as u64)))
    }
}

fn par_case(rng: &mut Rng, rep: &mut Report, tag: &str, small: bool) {
    heartbeat();
    let n = if small { *rng.pick(&[0usize, 3, 9, 15]) } else { *rng.pick(&[0usize, 1, 7, 15, 29, 30, 61, 113, 126, 250, 900, 4000]) };
    let phase = rng.below(6);
    let threads = if small { 1 + rng.usize(3) } else { 1 + rng.usize(16) };
    let bh = Bh::new(*rng.pick(&[HMode::Good, HMode::Good, HMode::Identity]), rng.below(8));
    // values are indices into the visit table
    let mut contents = BTreeMap::new();
    let universe = 4 * n as u64 + 16;
    while contents.len() < n {
        let k = rng.below(universe);
        let idx = contents.len() as u64;
        contents.entry(k).or_insert(idx);
    }
    let (mut m, split) = build(&contents, phase, bh, rng);
    let salt = rng.next();
    let pool = match rayon::ThreadPoolBuilder::new().num_threads(threads).build() {
        Ok(p) => p,
        Err(e) => {
            rep.harness_errors.push(format!("cannot build a rayon pool: {e}"));
            return;
        }
    };
    rep.max("par_max_threads", threads as u64);
    let body = vec![("kind", "par".to_string()), ("contents", format!("{} elements", n)), ("phase", phase.to_string()), ("threads", threads.to_string()), ("hasher", format!("{bh:?}"))];
    let mut partitions: Vec<u64> = Vec::new();
    let res = catch(|| -> Result<(), String> {
        pool.install(|| -> Result<(), String> {
            if m.len() != n {
                return Err("harness: built map has the wrong size".into());
            }
            // par_iter
            let v = Visit::new(n);
            m.par_iter().for_each(|(k, val)| {
                jitter(*k, salt);
                v.hit(*val as usize);
            });
            partitions.push(v.check(n, "par_iter")?);
            let mut got: Vec<(u64, u64)> = m.par_iter().map(|(a, b)| (*a, *b)).collect();
            got.sort_unstable();
            let want: Vec<(u64, u64)> = contents.iter().map(|(a, b)| (*a, *b)).collect();
            if got != want {
                return Err("par_iter collected a different multiset than iter".into());
            }
            // par_keys / par_values
            let v = Visit::new(n);
            m.par_keys().for_each(|k| {
                jitter(*k, salt);
                v.hit(contents[k] as usize);
            });
            partitions.push(v.check(n, "par_keys")?);
            let v = Visit::new(n);
            m.par_values().for_each(|val| {
                jitter(*val, salt);
                v.hit(*val as usize);
            });
            partitions.push(v.check(n, "par_values")?);
            // &mut traversals: each element handed to exactly one worker
            let v = Visit::new(n);
            (&mut m).into_par_iter().for_each(|(k, val)| {
                jitter(*k, salt);
                v.hit(*val as usize);
                *val += 1 << 32;
            });
            partitions.push(v.check(n, "par_iter_mut")?);
            let v = Visit::new(n);
            m.par_values_mut().for_each(|val| {
                jitter(*val, salt);
                v.hit((*val & 0xFFFF_FFFF) as usize);
                *val += 1 << 32;
            });
            partitions.push(v.check(n, "par_values_mut")?);
            for (k, val) in m.iter() {
                if *val != contents[k] + (2 << 32) {
                    return Err(format!("after two parallel mutable traversals key {k} holds {val:#x}"));
                }
            }
            m.par_values_mut().for_each(|val| *val &= 0xFFFF_FFFF);
            // par_eq with a differently built map
            let (m2, _) = build(&contents, (phase + 2) % 6, Bh::new(HMode::Good, 77), &mut Rng::new(salt));
            if !m.par_eq(&m2) || !m2.par_eq(&m) || (m == m2) != m.par_eq(&m2) {
                return Err("par_eq disagrees with ==".into());
            }
            if n > 0 {
                let mut m3 = m2.clone();
                let k = *contents.keys().next().unwrap();
                *m3.get_mut(&k).unwrap() += 1;
                if m.par_eq(&m3) || m3.par_eq(&m) {
                    return Err("par_eq true for maps differing in one value".into());
                }
            }
            // par_extend / from_par_iter vs sequential
            let extra: Vec<(u64, u64)> = (0..(n as u64 / 2 + 3)).map(|i| (mix(i ^ salt) % (universe * 2), i)).collect();
            let mut seq = m.clone();
            seq.extend(extra.iter().cloned());
            let mut par = m.clone();
            par.par_extend(extra.par_iter().cloned());
            // `extra` is an ordered (indexed) source: the parallel collection keeps its order, so
            // duplicates resolve exactly as in sequential extend (the last one wins)
            let mut seen = BTreeMap::new();
            for (k, _) in &extra {
                *seen.entry(*k).or_insert(0) += 1;
            }
            if seq.len() != par.len() {
                return Err("par_extend built a map of different size than extend".into());
            }
            for (k, vv) in seq.iter() {
                match par.get(k) {
                    None => return Err(format!("par_extend lost key {k}")),
                    Some(pv) => {
                        if pv != vv {
                            return Err(format!("par_extend stored {pv} for key {k}, extend stored {vv}"));
                        }
                    }
                }
            }
            let mut par2 = m.clone();
            let uniq: Vec<(u64, u64)> = extra.iter().filter(|(k, _)| seen[k] == 1).cloned().collect();
            par2.par_extend(uniq.par_iter().map(|(a, b)| (a, b)));
            let mut seq2 = m.clone();
            seq2.extend(uniq.iter().map(|(a, b)| (a, b)));
            if par2 != seq2 {
                return Err("par_extend by reference differs from extend by reference".into());
            }
            let fp: HashMap<u64, u64, Bh> = contents.par_iter().map(|(a, b)| (*a, *b)).collect();
            if fp != m || fp.len() != n {
                return Err("from_par_iter built a different map".into());
            }
            // an ordered source with repeated keys: the last occurrence wins, as in sequential collect
            let dups: Vec<(u64, u64)> = (0..(3 * n as u64 + 40)).map(|i| (mix(i ^ salt) % (n as u64 / 2 + 5), i)).collect();
            let seq_d: HashMap<u64, u64, Bh> = dups.iter().cloned().collect();
            let par_d: HashMap<u64, u64, Bh> = dups.par_iter().cloned().collect();
            if seq_d != par_d {
                let k = seq_d.iter().find(|(k, v)| par_d.get(*k) != Some(*v)).map(|(k, _)| *k);
                return Err(format!("from_par_iter of a source with repeated keys differs from sequential collect (e.g. key {k:?})"));
            }
            let seq_s: HashSet<u64, Bh> = dups.iter().map(|d| d.0).collect();
            let par_s: HashSet<u64, Bh> = dups.par_iter().map(|d| d.0).collect();
            if seq_s != par_s {
                return Err("set from_par_iter differs from sequential collect".into());
            }
            // par_eq must agree with == also for values that are not equal to themselves
            let mut nan: HashMap<u64, f64, Bh> = HashMap::with_hasher(bh);
            for (i, k) in contents.keys().take(20).enumerate() {
                nan.insert(*k, if i == 3 { f64::NAN } else { i as f64 });
            }
            #[allow(clippy::eq_op)]
            let seq_self = nan == nan;
            if nan.par_eq(&nan) != seq_self {
                return Err(format!("par_eq(self) = {} but == gives {} for a map holding a NaN", nan.par_eq(&nan), seq_self));
            }
            let nan2 = nan.clone();
            if nan.par_eq(&nan2) != (nan == nan2) {
                return Err("par_eq disagrees with == for maps holding a NaN".into());
            }
            // sets
            let keys: BTreeSet<u64> = contents.keys().copied().collect();
            let other: BTreeSet<u64> = keys.iter().copied().filter(|k| mix(*k ^ salt) % 3 != 0).chain((0..(n as u64 / 3)).map(|i| universe + i)).collect();
            let mk = |s: &BTreeSet<u64>, ph: u64, rng: &mut Rng| -> (HashSet<u64, Bh>, bool) {
                let c: BTreeMap<u64, u64> = s.iter().map(|k| (*k, 0)).collect();
                let (mm, sp) = build(&c, ph, Bh::new(HMode::Good, ph), rng);
                // a set in the same phase: insert in the map's layout order, then force the phase
                let mut set: HashSet<u64, Bh> = if ph == 0 { HashSet::with_capacity_and_hasher(s.len(), Bh::new(HMode::Good, ph)) } else { HashSet::with_hasher(Bh::new(HMode::Good, ph)) };
                for k in mm.keys() {
                    set.insert(*k);
                }
                if (2..=4).contains(&ph) {
                    let mut noise = Vec::new();
                    let mut e = 0u64;
                    while set.verif_state().old.is_none() && e < 5000 {
                        e += 1;
                        set.insert((1 << 43) + e);
                        noise.push((1u64 << 43) + e);
                    }
                    for x in noise {
                        set.remove(&x);
                    }
                }
                if ph == 5 && !set.is_empty() && set.verif_state().old.is_none() {
                    let free = set.capacity() - set.len();
                    set.reserve(free + 1);
                }
                let _ = sp;
                let sp = set.verif_state().old.as_ref().map_or(false, |o| o.table.len > 0);
                (set, sp)
            };
            let mut r2 = Rng::new(salt ^ 5);
            let (sa, sa_split) = mk(&keys, phase, &mut r2);
            let (sb, sb_split) = mk(&other, (phase + 3) % 6, &mut r2);
            let v = AtomicU64::new(0);
            let cnt = Visit::new(n);
            sa.par_iter().for_each(|k| {
                jitter(*k, salt);
                cnt.hit(contents[k] as usize);
                v.fetch_add(1, Ordering::Relaxed);
            });
            partitions.push(cnt.check(n, "set par_iter")?);
            let coll = |it: Vec<u64>, what: &str| -> Result<BTreeSet<u64>, String> {
                let s: BTreeSet<u64> = it.iter().copied().collect();
                if s.len() != it.len() {
                    return Err(format!("{what} yielded an element twice"));
                }
                Ok(s)
            };
            for (x, y, bx, by) in [(&sa, &sb, &keys, &other), (&sb, &sa, &other, &keys)] {
                if coll(x.par_union(y).map(|k| *k).collect(), "par_union")? != bx.union(by).copied().collect() {
                    return Err("par_union differs from the mathematical union".into());
                }
                if coll(x.par_intersection(y).map(|k| *k).collect(), "par_intersection")? != bx.intersection(by).copied().collect() {
                    return Err("par_intersection differs".into());
                }
                if coll(x.par_difference(y).map(|k| *k).collect(), "par_difference")? != bx.difference(by).copied().collect() {
                    return Err("par_difference differs".into());
                }
                if coll(x.par_symmetric_difference(y).map(|k| *k).collect(), "par_symmetric_difference")? != bx.symmetric_difference(by).copied().collect() {
                    return Err("par_symmetric_difference differs".into());
                }
                if x.par_is_subset(y) != bx.is_subset(by) || x.par_is_superset(y) != bx.is_superset(by) || x.par_is_disjoint(y) != bx.is_disjoint(by) || x.par_eq(y) != (bx == by) {
                    return Err("a parallel set predicate disagrees with the sequential one".into());
                }
                if x.par_is_subset(y) != x.is_subset(y) || x.par_is_disjoint(y) != x.is_disjoint(y) {
                    return Err("a parallel set predicate disagrees with griddle's sequential one".into());
                }
            }
            let mut ps: HashSet<u64, Bh> = sa.clone();
            ps.par_extend(other.par_iter().cloned());
            let mut ps2: HashSet<u64, Bh> = sa.clone();
            ps2.par_extend(other.par_iter());
            let fs: HashSet<u64, Bh> = keys.par_iter().cloned().collect();
            let un: BTreeSet<u64> = keys.union(&other).copied().collect();
            if ps.iter().copied().collect::<BTreeSet<u64>>() != un || ps2 != ps || fs != sa {
                return Err("set par_extend / from_par_iter differ from the sequential result".into());
            }
            if sa_split || sb_split {
                partitions.push(1);
            }
            Ok(())
        })
    });
    match res {
        Ok(Ok(())) => {
            // one evaluation per traversal kind whose visit counters were checked
            rep.evaluations += partitions.len() as u64;
            rep.bump("par_cases", 1);
            if split {
                rep.bump("par_split_maps", 1);
                for p in &partitions {
                    rep.nontrivial.insert(digest([*p, n as u64, threads as u64, phase]));
                }
                rep.sample(format!("{n} elements, phase {phase}, split {split}, pool of {threads} threads, hasher {bh:?}: par_iter/par_keys/par_values/par_iter_mut/par_values_mut/set algebra"));
            }
            let mut d: BTreeSet<u64> = partitions.iter().copied().collect();
            d.remove(&1);
            rep.bump("par_partitions_observed_total", d.len() as u64);
            for p in d {
                rep.notes.entry("partitions".into()).or_default();
                PARTS.with(|s| {
                    s.borrow_mut().insert(p);
                });
            }
        }
        Ok(Err(e)) => {
            rep.evaluations += 1;
            rep.direct_violation(if e.starts_with("harness") { crate::mon::HARNESS } else { "C15" }, tag, &e, &body);
        }
        Err(p) => {
            rep.evaluations += 1;
            rep.direct_violation("C15", tag, &format!("panic during parallel traversal: {p}"), &body);
        }
    }
}

thread_local! {
    static PARTS: std::cell::RefCell<BTreeSet<u64>> = const { std::cell::RefCell::new(BTreeSet::new()) };
}

pub fn par(a: &Args, rep: &mut Report) {
    let sh = Shard::from_args(a);
    let mut rng = sh.rng(0x9a7);
    let small = cfg!(miri) || a.has("small");
    for h in 0..sh.n {
        let mut hr = rng.fork();
        let tag = format!("par-{}-s{}-i{}-h{}", flavour(), sh.seed, sh.index, h);
        par_case(&mut hr, rep, &tag, small);
    }
    let n = PARTS.with(|s| s.borrow().len());
    rep.extra.insert("par_distinct_partitions".into(), n as u64);
    rep.notes.remove("partitions");
}

// ------------------------------------------------------------------------------------------
// serde
// ------------------------------------------------------------------------------------------

use serde::de::value::{Error as DeError, SeqDeserializer};
use serde::Deserialize;
use serde_test::{assert_de_tokens, assert_ser_tokens, Token};

/// A BuildHasher whose `Default` instances hash differently from one another.
#[derive(Clone, Debug)]
pub struct Bd(Bh);
thread_local! {
    static BD_SEED: std::cell::Cell<u64> = const { std::cell::Cell::new(1000) };
}
impl Default for Bd {
    fn default() -> Self {
        let s = BD_SEED.with(|c| {
            c.set(c.get() + 1);
            c.get()
        });
        Bd(Bh::new(HMode::Good, s))
    }
}
impl std::hash::BuildHasher for Bd {
    type Hasher = <Bh as std::hash::BuildHasher>::Hasher;
    fn build_hasher(&self) -> Self::Hasher {
        self.0.build_hasher()
    }
}

/// A key whose `Hash` can be made to panic by the fuse (the plain u64 keys cannot).
#[derive(Clone, Copy, PartialEq, Eq, Debug)]
struct Pk(u64);
impl std::hash::Hash for Pk {
    fn hash<H: std::hash::Hasher>(&self, state: &mut H) {
        tick(Cb::Hash);
        state.write_u64(self.0);
    }
}
impl serde::Serialize for Pk {
    fn serialize<S: serde::Serializer>(&self, s: S) -> Result<S::Ok, S::Error> {
        s.serialize_u64(self.0)
    }
}
impl<'de> Deserialize<'de> for Pk {
    fn deserialize<D: serde::Deserializer<'de>>(d: D) -> Result<Self, D::Error> {
        u64::deserialize(d).map(Pk)
    }
}

pub fn serde(a: &Args, rep: &mut Report) {
    let sh = Shard::from_args(a);
    let mut rng = sh.rng(0x5e7de);
    for h in 0..sh.n {
        let mut hr = rng.fork();
        let n = *hr.pick(&[0usize, 1, 2, 7, 14, 15, 29, 30, 61, 113, 126, 250, 1000]);
        let phase = hr.below(6);
        let mut contents = BTreeMap::new();
        while contents.len() < n {
            contents.insert(hr.below(n as u64 * 4 + 9), hr.below(1000));
        }
        // S: Default is needed for Deserialize, so the default Bh is used on both sides
        let (m, split) = build(&contents, phase, Bh::default(), &mut hr);
        heartbeat();
        let tag = format!("serde-{}-s{}-i{}-h{}", flavour(), sh.seed, sh.index, h);
        let body = vec![("kind", "serde".to_string()), ("contents", format!("{contents:?}")), ("phase", phase.to_string())];
        rep.evaluations += 1;
        let post_panic = std::cell::Cell::new(false);
        let r = catch(|| -> Result<bool, String> {
            // exact length, each element once, in iteration order
            let mut tokens: Vec<Token> = vec![Token::Map { len: Some(m.len()) }];
            for (k, v) in m.iter() {
                tokens.push(Token::U64(*k));
                tokens.push(Token::U64(*v));
            }
            tokens.push(Token::MapEnd);
            if m.len() != n {
                return Err("harness: wrong size".into());
            }
            assert_ser_tokens(&m, &tokens);
            // deserialising that output yields an equal collection
            assert_de_tokens(&m, &tokens);
            // set
            let mut s: HashSet<u64, Bh> = HashSet::with_hasher(Bh::default());
            for k in m.keys() {
                s.insert(*k);
            }
            let mut noise = Vec::new();
            if phase == 5 && !s.is_empty() && s.verif_state().old.is_none() {
                let free = s.capacity() - s.len();
                s.reserve(free + 1);
            }
            if (2..=4).contains(&phase) {
                let mut e = 0u64;
                while s.verif_state().old.is_none() && e < 5000 {
                    e += 1;
                    s.insert((1 << 42) + e);
                    noise.push((1u64 << 42) + e);
                }
                for x in noise {
                    s.remove(&x);
                }
            }
            let set_split = s.verif_state().old.as_ref().map_or(false, |o| o.table.len > 0);
            let mut st: Vec<Token> = vec![Token::Seq { len: Some(s.len()) }];
            for k in s.iter() {
                st.push(Token::U64(*k));
            }
            st.push(Token::SeqEnd);
            assert_ser_tokens(&s, &st);
            assert_de_tokens(&s, &st);
            // deserialize_in_place replaces the previous contents entirely, whatever state the
            // destination is in
            let mut prior = BTreeMap::new();
            let pn = *hr.pick(&[0usize, 5, 15, 30, 61]);
            while prior.len() < pn {
                prior.insert((1u64 << 30) + hr.below(1000), 0);
            }
            // some overlap with the new contents
            for k in contents.keys().take(3) {
                prior.insert(*k, 0);
            }
            let (pm, _) = build(&prior, hr.below(6), Bh::default(), &mut hr);
            let mut place: HashSet<u64, Bh> = HashSet::with_hasher(Bh::default());
            for k in pm.keys() {
                place.insert(*k);
            }
            let mut e = 0u64;
            let mut noise = Vec::new();
            let how = hr.below(5);
            if how == 3 && !place.is_empty() && place.verif_state().old.is_none() {
                // destination mid-resize with an empty main table
                let free = place.capacity() - place.len();
                place.reserve(free + 1);
            }
            if how <= 1 {
                while place.verif_state().old.is_none() && e < 5000 {
                    e += 1;
                    place.insert((1 << 41) + e);
                    noise.push((1u64 << 41) + e);
                }
                for x in noise {
                    place.remove(&x);
                }
            }
            if how == 4 {
                // destination whose OLD table is the larger allocation: grow, remove nearly
                // everything, shrink the main table to fit
                let mut e = 0u64;
                while place.verif_state().old.is_none() && e < 5000 {
                    e += 1;
                    place.insert((1 << 41) + e);
                }
                let keys: Vec<u64> = place.iter().copied().collect();
                let keep: Vec<u64> = keys.iter().copied().filter(|k| matches!(place.verif_locate(k), griddle::verif::Location::Old(_))).take(1 + n % 4).collect();
                for k in keys {
                    if !keep.contains(&k) {
                        place.remove(&k);
                    }
                }
                place.shrink_to_fit();
            }
            let place_split = place.verif_state().old.is_some();
            let items: Vec<u64> = s.iter().copied().collect();
            // with and without an up-front length (a filter adapter has no exact size hint)
            let res = if hr.chance(1, 2) {
                let de: SeqDeserializer<_, DeError> = SeqDeserializer::new(items.into_iter());
                <HashSet<u64, Bh> as Deserialize>::deserialize_in_place(de, &mut place)
            } else {
                let de: SeqDeserializer<_, DeError> = SeqDeserializer::new(items.into_iter().filter(|_| true));
                <HashSet<u64, Bh> as Deserialize>::deserialize_in_place(de, &mut place)
            };
            if let Err(e) = res {
                return Err(format!("deserialize_in_place failed: {e}"));
            }
            if place != s || place.len() != s.len() || place.iter().copied().collect::<BTreeSet<u64>>() != contents.keys().copied().collect() {
                return Err(format!("deserialize_in_place left {} elements, the input had {}", place.len(), s.len()));
            }
            // and through a self-describing round trip of the map by value deserializer
            let md: serde::de::value::MapDeserializer<_, DeError> = serde::de::value::MapDeserializer::new(m.iter().map(|(a, b)| (*a, *b)));
            let back: HashMap<u64, u64, Bh> = match HashMap::deserialize(md) {
                Ok(b) => b,
                Err(e) => return Err(format!("map deserialize failed: {e}")),
            };
            if back != m {
                return Err("map round trip through MapDeserializer differs".into());
            }
            // in-place deserialisation of a map (serde's default, or an override) into a
            // destination with other contents in any phase: the result equals the original
            {
                let mut pmap = pm;
                let md: serde::de::value::MapDeserializer<_, DeError> = serde::de::value::MapDeserializer::new(m.iter().map(|(a, b)| (*a, *b)));
                if let Err(e) = <HashMap<u64, u64, Bh> as Deserialize>::deserialize_in_place(md, &mut pmap) {
                    return Err(format!("map deserialize_in_place failed: {e}"));
                }
                if pmap != m || pmap.len() != m.len() {
                    return Err(format!("map deserialize_in_place left {} elements, the input had {}", pmap.len(), m.len()));
                }
            }
            // a hasher type whose Default instances differ (like std's RandomState), fed by
            // deserializers without a size hint so that the result is still mid-resize when the
            // last element goes in: lookups must work in the result, both ways round
            {
                let md: serde::de::value::MapDeserializer<_, DeError> = serde::de::value::MapDeserializer::new(m.iter().map(|(a, b)| (*a, *b)).filter(|_| true));
                let back: HashMap<u64, u64, Bd> = match HashMap::deserialize(md) {
                    Ok(b) => b,
                    Err(e) => return Err(format!("map deserialize (unsized) failed: {e}")),
                };
                if back.len() != m.len() {
                    return Err(format!("unsized map round trip has {} elements, the original {}", back.len(), m.len()));
                }
                for (k, v) in m.iter() {
                    if back.get(k) != Some(v) || !back.contains_key(k) {
                        return Err(format!("key {k} of the original is not found in the deserialised map (per-instance hasher)"));
                    }
                }
                for (k, v) in back.iter() {
                    if m.get(k) != Some(v) {
                        return Err(format!("deserialised map holds ({k}, {v}) which the original does not"));
                    }
                }
                let sd: SeqDeserializer<_, DeError> = SeqDeserializer::new(m.keys().copied().filter(|_| true));
                let bs: HashSet<u64, Bd> = match HashSet::deserialize(sd) {
                    Ok(b) => b,
                    Err(e) => return Err(format!("set deserialize (unsized) failed: {e}")),
                };
                if bs.len() != m.len() || m.keys().any(|k| !bs.contains(k)) || bs.iter().any(|k| !m.contains_key(k)) {
                    return Err("unsized set round trip lost or invented elements (per-instance hasher)".into());
                }
            }
            // zero-sized elements
            {
                let mut z: HashSet<(), Bh> = HashSet::with_hasher(Bh::default());
                let mut zm: HashMap<(), (), Bh> = HashMap::with_hasher(Bh::default());
                if n % 2 == 1 {
                    z.insert(());
                    zm.insert((), ());
                }
                let mut zt = vec![Token::Seq { len: Some(z.len()) }];
                let mut zmt = vec![Token::Map { len: Some(zm.len()) }];
                for _ in 0..z.len() {
                    zt.push(Token::Unit);
                    zmt.push(Token::Unit);
                    zmt.push(Token::Unit);
                }
                zt.push(Token::SeqEnd);
                zmt.push(Token::MapEnd);
                assert_ser_tokens(&z, &zt);
                assert_de_tokens(&z, &zt);
                assert_ser_tokens(&zm, &zmt);
                assert_de_tokens(&zm, &zmt);
                let mut zp: HashSet<(), Bh> = HashSet::with_hasher(Bh::default());
                if phase % 2 == 0 {
                    zp.insert(());
                }
                let units: Vec<()> = vec![(); z.len()];
                let zd: SeqDeserializer<_, DeError> = SeqDeserializer::new(units.into_iter());
                if <HashSet<(), Bh> as Deserialize>::deserialize_in_place(zd, &mut zp).is_err() || zp != z {
                    return Err("deserialize_in_place of a zero-sized-element set went wrong".into());
                }
            }
            // a set that lived through a caught panic of the user's Hash (in the all-at-once carry
            // of reserve, mid-resize) is still a set: exact length, every element once, round trip
            if n >= 15 && hr.chance(1, 2) {
                let mut ps: HashSet<Pk, Bh> = HashSet::with_hasher(Bh::default());
                for k in contents.keys() {
                    ps.insert(Pk(*k));
                }
                let mut e = 0u64;
                let mut noise = Vec::new();
                while ps.verif_state().old.is_none() && e < 5000 {
                    e += 1;
                    ps.insert(Pk((1 << 43) + e));
                    noise.push((1u64 << 43) + e);
                }
                for x in noise {
                    ps.remove(&Pk(x));
                }
                let left = ps.verif_state().old.map_or(0, |o| o.table.len);
                if left > 0 {
                    let j = 1 + hr.below(left as u64);
                    fuse_begin(Some((Cb::Hash, j)));
                    let r = catch(|| ps.reserve(10_000));
                    let (_, fired) = fuse_end();
                    if let Err(p) = &r {
                        if !p.contains(FUSE_MSG) {
                            return Err(format!("harness: reserve panicked on its own: {p}"));
                        }
                    }
                    if fired {
                        let mut pt: Vec<Token> = vec![Token::Seq { len: Some(ps.len()) }];
                        for k in ps.iter() {
                            pt.push(Token::U64(k.0));
                        }
                        pt.push(Token::SeqEnd);
                        assert_ser_tokens(&ps, &pt);
                        assert_de_tokens(&ps, &pt);
                        post_panic.set(true);
                    }
                }
            }
            // wrong input shapes are rejected with the collection's own expectation text
            serde_test::assert_de_tokens_error::<HashMap<u64, u64, Bh>>(&[Token::U64(1)], "invalid type: integer `1`, expected a map");
            serde_test::assert_de_tokens_error::<HashSet<u64, Bh>>(&[Token::U64(1)], "invalid type: integer `1`, expected a sequence");
            let bad: serde::de::value::U64Deserializer<DeError> = serde::de::value::U64Deserializer::new(7);
            if <HashSet<u64, Bh> as Deserialize>::deserialize_in_place(bad, &mut place).is_ok() {
                return Err("deserialize_in_place accepted an integer".into());
            }
            Ok(set_split || place_split)
        });
        match r {
            Ok(Ok(extra_split)) => {
                rep.bump("serde_cases", 1);
                if post_panic.get() {
                    rep.bump("serde_after_caught_hash_panic", 1);
                }
                if split || extra_split {
                    rep.bump("serde_split", 1);
                    rep.nontrivial.insert(digest(contents.iter().flat_map(|(a, b)| [*a, *b]).chain([phase])));
                    rep.sample(format!("{n} elements in phase {phase} (split {split}): ser tokens, de tokens, deserialize_in_place, MapDeserializer round trip"));
                }
            }
            Ok(Err(e)) => {
                rep.direct_violation(if e.starts_with("harness") { crate::mon::HARNESS } else { "C16" }, &tag, &e, &body);
            }
            Err(p) => {
                rep.direct_violation("C16", &tag, &format!("serde_test assertion failed: {p}"), &body);
            }
        }
    }
}
