//! Concrete, serialisable operations. Every op is `code k v n [list]`; the meaning of the
//! fields per code is documented at the variant. Replays are lists of encoded ops.

macro_rules! codes {
    ($($name:ident),* $(,)?) => {
        #[derive(Clone, Copy, PartialEq, Eq, Debug, Hash, PartialOrd, Ord)]
        #[allow(clippy::enum_variant_names)]
        pub enum Code { $($name),* }
        pub const ALL_CODES: &[Code] = &[$(Code::$name),*];
        impl Code {
            pub fn name(self) -> &'static str { match self { $(Code::$name => stringify!($name)),* } }
            pub fn from_name(s: &str) -> Option<Code> { match s { $(stringify!($name) => Some(Code::$name),)* _ => None } }
        }
    };
}

codes! {
    // ---- map, single element -------------------------------------------------------------
    Insert,          // k v
    Get,             // k
    GetMut,          // k, write v
    GetKeyValue,     // k
    GetKeyValueMut,  // k, write v
    ContainsKey,     // k
    Index,           // k (documented panic when missing)
    Remove,          // k
    RemoveEntry,     // k
    Entry,           // k, list = [step, arg, step, arg, ...] (see chain.rs)
    RawEntryMut,     // k, n = how (0 from_key, 1 from_key_hashed_nocheck, 2 from_hash), list = steps
    RawEntry,        // k, n = how
    // ---- map, traversal ------------------------------------------------------------------
    Iter,            // n = step at which a clone of the iterator is taken (u64::MAX = never)
    Keys,
    Values,
    IterMut,         // v = delta added to every payload
    ValuesMut,       // v = delta
    IntoIter,        // n = number of items consumed before dropping the iterator (MAX = all)
    Drain,           // n = prefix (MAX = all), v = 0 drop / 1 forget
    Retain,          // list = predicate, v = delta applied to payloads of visited elements (0 = none)
    DrainFilter,     // list = predicate, v = delta, n = prefix (MAX = all), k = 0 drop / 1 forget
    // ---- map, bulk / whole ---------------------------------------------------------------
    Extend,          // list = k,v pairs
    ExtendHinted,    // list = k,v pairs, n = lower size bound the iterator claims
    FromIter,        // list = k,v pairs; the built map replaces the current one
    Clear,
    Reserve,         // n
    TryReserve,      // n
    ShrinkToFit,
    ShrinkTo,        // n
    CloneSwap,       // clone, check, then continue on the clone
    CloneFrom,       // n = dest capacity, v = dest hasher code, list = prior dest contents (k,v pairs)
    EqSelf,
    DebugFmt,
    Probe,           // C04 probe: insert capacity()-len() fresh keys
    WithCapacity,    // n: replace by a fresh map
    FullCheck,
    // ---- set -----------------------------------------------------------------------------
    SInsert,         // k
    SReplace,        // k
    SRemove,         // k
    STake,           // k
    SGet,            // k
    SContains,       // k
    SGetOrInsert,    // k
    SGetOrInsertOwned, // k
    SGetOrInsertWith,  // k
    SRetain,         // list = predicate
    SDrain,          // n prefix, v mode
    SDrainFilter,    // list = predicate, n prefix, k mode
    SExtend,         // list = keys
    SClear,
    SIter,
    SIntoIter,       // n prefix
    SReserve,        // n
    SShrinkToFit,
    SCloneSwap,
}

pub const MAXN: u64 = u64::MAX;

#[derive(Clone, PartialEq, Eq, Debug)]
pub struct Op {
    pub code: Code,
    pub k: u64,
    pub v: u64,
    pub n: u64,
    pub list: Vec<u64>,
}

impl Op {
    pub fn new(code: Code) -> Op {
        Op { code, k: 0, v: 0, n: 0, list: Vec::new() }
    }
    pub fn k(code: Code, k: u64) -> Op {
        Op { code, k, v: 0, n: 0, list: Vec::new() }
    }
    pub fn kv(code: Code, k: u64, v: u64) -> Op {
        Op { code, k, v, n: 0, list: Vec::new() }
    }
    pub fn n(code: Code, n: u64) -> Op {
        Op { code, k: 0, v: 0, n, list: Vec::new() }
    }
    pub fn with_list(mut self, l: Vec<u64>) -> Op {
        self.list = l;
        self
    }
    pub fn with_n(mut self, n: u64) -> Op {
        self.n = n;
        self
    }
    pub fn with_v(mut self, v: u64) -> Op {
        self.v = v;
        self
    }
    pub fn with_k(mut self, k: u64) -> Op {
        self.k = k;
        self
    }

    pub fn encode(&self) -> String {
        let l: Vec<String> = self.list.iter().map(|x| x.to_string()).collect();
        format!("{} {} {} {} [{}]", self.code.name(), self.k, self.v, self.n, l.join(","))
    }

    pub fn decode(s: &str) -> Option<Op> {
        let mut it = s.split_whitespace();
        let code = Code::from_name(it.next()?)?;
        let k = it.next()?.parse().ok()?;
        let v = it.next()?.parse().ok()?;
        let n = it.next()?.parse().ok()?;
        let l = it.next()?;
        let l = l.strip_prefix('[')?.strip_suffix(']')?;
        let list = if l.is_empty() {
            Vec::new()
        } else {
            l.split(',').map(|x| x.parse().ok()).collect::<Option<Vec<u64>>>()?
        };
        Some(Op { code, k, v, n, list })
    }

    pub fn words(&self) -> impl Iterator<Item = u64> + '_ {
        [self.code as u64, self.k, self.v, self.n].into_iter().chain(self.list.iter().copied())
    }
}

pub fn history_digest(ops: &[Op]) -> u64 {
    crate::base::digest(ops.iter().flat_map(|o| o.words().chain(std::iter::once(0xFFFF_0000))))
}

// ---- predicates (for retain / drain_filter) -----------------------------------------------
// list = [kind, a, b, keys...]: 0 = false for all, 1 = true for all, 2 = key % a == b,
// 3 = key is in keys.

pub fn pred_none() -> Vec<u64> {
    vec![0, 0, 0]
}
pub fn pred_all() -> Vec<u64> {
    vec![1, 0, 0]
}
pub fn pred_mod(m: u64, r: u64) -> Vec<u64> {
    vec![2, m.max(1), r]
}
pub fn pred_keys(keys: &[u64]) -> Vec<u64> {
    let mut v = vec![3, 0, 0];
    v.extend_from_slice(keys);
    v
}

pub struct Pred {
    kind: u64,
    a: u64,
    b: u64,
    keys: std::collections::BTreeSet<u64>,
}
impl Pred {
    pub fn parse(l: &[u64]) -> Pred {
        Pred {
            kind: l.first().copied().unwrap_or(0),
            a: l.get(1).copied().unwrap_or(1).max(1),
            b: l.get(2).copied().unwrap_or(0),
            keys: l.iter().skip(3).copied().collect(),
        }
    }
    pub fn eval(&self, k: u64) -> bool {
        match self.kind {
            0 => false,
            1 => true,
            2 => k % self.a == self.b,
            _ => self.keys.contains(&k),
        }
    }
}

// ---- entry-chain step codes (see chain.rs) ------------------------------------------------
pub mod step {
    pub const E_OR_INSERT: u64 = 1;
    pub const E_OR_INSERT_WITH: u64 = 2;
    pub const E_OR_INSERT_WITH_KEY: u64 = 3;
    pub const E_OR_DEFAULT: u64 = 4;
    pub const E_AND_MODIFY: u64 = 5;
    pub const E_AND_REPLACE: u64 = 6; // arg MAX = closure returns None
    pub const E_INSERT: u64 = 7;
    pub const E_KEY: u64 = 8;
    pub const E_MATCH: u64 = 9;
    pub const O_KEY: u64 = 20;
    pub const O_GET: u64 = 21;
    pub const O_GET_MUT: u64 = 22;
    pub const O_INSERT: u64 = 23;
    pub const O_INTO_MUT: u64 = 24;
    pub const O_REMOVE: u64 = 25;
    pub const O_REMOVE_ENTRY: u64 = 26;
    pub const O_REPLACE_ENTRY: u64 = 27;
    pub const O_REPLACE_KEY: u64 = 28;
    pub const O_REPLACE_WITH: u64 = 29; // arg MAX = None
    pub const V_KEY: u64 = 40;
    pub const V_INTO_KEY: u64 = 41;
    pub const V_INSERT: u64 = 42;
    pub const R_WRITE: u64 = 50;

    pub const RE_INSERT: u64 = 101;
    pub const RE_OR_INSERT: u64 = 102;
    pub const RE_OR_INSERT_WITH: u64 = 103;
    pub const RE_AND_MODIFY: u64 = 104;
    pub const RE_AND_REPLACE: u64 = 105;
    pub const RE_MATCH: u64 = 106;
    pub const RO_KEY: u64 = 120;
    pub const RO_KEY_MUT: u64 = 121;
    pub const RO_INTO_KEY: u64 = 122;
    pub const RO_GET: u64 = 123;
    pub const RO_GET_MUT: u64 = 124;
    pub const RO_INTO_MUT: u64 = 125;
    pub const RO_GET_KEY_VALUE: u64 = 126;
    pub const RO_GET_KEY_VALUE_MUT: u64 = 127;
    pub const RO_INTO_KEY_VALUE: u64 = 128;
    pub const RO_INSERT: u64 = 129;
    pub const RO_INSERT_KEY: u64 = 130;
    pub const RO_REMOVE: u64 = 131;
    pub const RO_REMOVE_ENTRY: u64 = 132;
    pub const RO_REPLACE_WITH: u64 = 133;
    pub const RV_INSERT: u64 = 140;
    pub const RV_INSERT_HASHED: u64 = 141;
    pub const RV_INSERT_WITH_HASHER: u64 = 142;
    pub const RKV_WRITE: u64 = 150;

    /// Steps applicable to an `Entry` (with whether they take a value argument)
    pub const ENTRY_STEPS: &[(u64, bool)] = &[
        (E_OR_INSERT, true),
        (E_OR_INSERT_WITH, true),
        (E_OR_INSERT_WITH_KEY, true),
        (E_OR_DEFAULT, false),
        (E_AND_MODIFY, true),
        (E_AND_REPLACE, true),
        (E_INSERT, true),
        (E_KEY, false),
        (E_MATCH, false),
    ];
    pub const OCC_STEPS: &[(u64, bool)] = &[
        (O_KEY, false),
        (O_GET, false),
        (O_GET_MUT, true),
        (O_INSERT, true),
        (O_INTO_MUT, true),
        (O_REMOVE, false),
        (O_REMOVE_ENTRY, false),
        (O_REPLACE_ENTRY, true),
        (O_REPLACE_KEY, false),
        (O_REPLACE_WITH, true),
    ];
    pub const VAC_STEPS: &[(u64, bool)] = &[(V_KEY, false), (V_INTO_KEY, false), (V_INSERT, true)];
    pub const REF_STEPS: &[(u64, bool)] = &[(R_WRITE, true)];

    pub const RAW_ENTRY_STEPS: &[(u64, bool)] = &[
        (RE_INSERT, true),
        (RE_OR_INSERT, true),
        (RE_OR_INSERT_WITH, true),
        (RE_AND_MODIFY, true),
        (RE_AND_REPLACE, true),
        (RE_MATCH, false),
    ];
    pub const RAW_OCC_STEPS: &[(u64, bool)] = &[
        (RO_KEY, false),
        (RO_KEY_MUT, false),
        (RO_INTO_KEY, false),
        (RO_GET, false),
        (RO_GET_MUT, true),
        (RO_INTO_MUT, true),
        (RO_GET_KEY_VALUE, false),
        (RO_GET_KEY_VALUE_MUT, true),
        (RO_INTO_KEY_VALUE, true),
        (RO_INSERT, true),
        (RO_INSERT_KEY, false),
        (RO_REMOVE, false),
        (RO_REMOVE_ENTRY, false),
        (RO_REPLACE_WITH, true),
    ];
    pub const RAW_VAC_STEPS: &[(u64, bool)] = &[
        (RV_INSERT, true),
        (RV_INSERT_HASHED, true),
        (RV_INSERT_WITH_HASHER, true),
    ];
    pub const RAW_KV_STEPS: &[(u64, bool)] = &[(RKV_WRITE, true)];
}
